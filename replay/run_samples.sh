#!/bin/bash
# replay/run_samples.sh <repo> [sample-name-prefix...]  — compile+run samples (8 at a time), compare with their "// want:" line.
repo=$1; shift
pats=("$@"); [ ${#pats[@]} -eq 0 ] && pats=("")
one() {
  repo=$1; f=$2
  want=$(head -1 "$f" | sed 's|^// want: ||')
  got=$(/verif/replay/cotool.sh "$repo" "$f" 2>&1 | tail -1)
  ok=no
  if [ "$got" == "$want" ]; then ok=yes; fi
  case "$want" in REJECT-OR*) w2=${want#REJECT-OR }; if [ "$got" == "$w2" ] || [[ "$got" == COMPILER-PANIC:*"in: "* ]]; then ok=yes; fi;; esac
  if [ $ok == yes ]; then echo "SAMPLE-OK   $(basename $f .go): $got" | cut -c1-200; else echo "SAMPLE-FAIL $(basename $f .go): want $want got $got" | cut -c1-300; fi
}
export -f one
files=()
for p in "${pats[@]}"; do for f in /verif/replay/samples/${p}*.go; do [ -e "$f" ] && files+=("$f"); done; done
out=$(printf '%s\n' "${files[@]}" | sort -u | xargs -P 8 -I{} bash -c 'one "$0" "$1"' "$repo" {} | sort -k2)
echo "$out"
if echo "$out" | grep -q '^SAMPLE-FAIL'; then exit 1; fi
exit 0
