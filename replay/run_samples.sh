#!/bin/bash
# replay/run_samples.sh <repo> [sample-name-prefix...]  — compile+run samples, compare with their "// want:" line.
repo=$1; shift
pats=("$@"); [ ${#pats[@]} -eq 0 ] && pats=("")
fail=0
for p in "${pats[@]}"; do
for f in /verif/replay/samples/${p}*.go; do
  want=$(head -1 "$f" | sed 's|^// want: ||')
  got=$(/verif/replay/cotool.sh "$repo" "$f" 2>&1 | tail -1)
  ok=no
  if [ "$got" == "$want" ]; then ok=yes; fi
  case "$want" in REJECT-OR*) w2=${want#REJECT-OR }; if [ "$got" == "$w2" ] || [[ "$got" == COMPILER-PANIC:*"in: "* ]]; then ok=yes; fi;; esac
  if [ $ok == yes ]; then echo "SAMPLE-OK   $(basename $f .go): $got" | cut -c1-200; else echo "SAMPLE-FAIL $(basename $f .go): want $want got $got" | cut -c1-300; fail=1; fi
done
done
exit $fail
