#!/bin/bash
# replay/determinism.sh <repo-dir>
# Bounded check of C15 on the real compiler (plain main binary: the compiler names helpers differently under `go test`):
# one package p is compiled (A) alone, (B) again into the same destination (outputs of the earlier run on disk),
# (C) together with sibling files of the same package and another package.  The generated text of p/gen.go must be
# byte-identical in A, B and C, and the helper identifiers declared in it must be pairwise distinct.
# (D) over the outputs of a run whose neighbour file had another type, (E) with files left in <dst>_tmp by an interrupted run.
# (F) with test packages loaded: an in-package test file alone and next to a non-test generator file of the same package.
# Prints DETERMINISM-OK or DETERMINISM-FAIL: <what>.
export GOFLAGS=-mod=mod GOPROXY=off GOSUMDB=off GOTOOLCHAIN=local
repo=$(realpath "$1")
# fixed scratch path (see cotool.sh): concurrent runs on different repositories get different names
d=""
for i in $(seq 0 15); do
  exec 9>"/tmp/codet-slot-$i.lock"
  if flock -n 9; then d=/tmp/codet-slot-$i; break; fi
done
[ -n "$d" ] || { d=$(mktemp -d /tmp/codetXXXXXX); }
rm -rf "$d"; mkdir -p "$d"; trap 'rm -rf "$d"' EXIT
rsync -a --exclude .git --exclude example --exclude 'rewriter/test' "$repo/" "$d/"
mkdir -p "$d/zzd/tool" "$d/zzd/a/src/p" "$d/zzd/c/src/p" "$d/zzd/c/src/q"
cat > "$d/zzd/tool/main.go" <<'GO'
package main

import (
	"fmt"
	"os"

	"github.com/goghcrow/go-co/rewriter"
	"github.com/goghcrow/go-loader"
)

func main() {
	defer func() {
		if r := recover(); r != nil {
			fmt.Printf("COMPILER-PANIC: %v\n", r)
			os.Exit(3)
		}
	}()
	var opts []loader.Option
	if len(os.Args) > 3 && os.Args[3] == "with-tests" {
		opts = append(opts, loader.WithLoadTest()) // what cogen / go:generate mode does
	}
	rewriter.Compile(os.Args[1], os.Args[2], opts...)
}
GO
cat > "$d/zzd/a/src/p/gen.go" <<'GO'
package p

import (
	. "github.com/goghcrow/go-co"
)

// sequential and nested range loops, generator literals, a consumer range
func Pairs(xs []int, m map[string]int, s string) Iter[int] {
	for _, x := range xs {
		Yield(x)
	}
	for i := range xs {
		for _, r := range s {
			Yield(i + int(r))
		}
	}
	for k, v := range m {
		Yield(len(k) + v)
	}
	inner := func(n int) Iter[int] {
		for i := range make([]int, n) {
			Yield(i)
		}
		return nil
	}
	for v := range inner(2) {
		Yield(v)
	}
	YieldFrom(inner(1))
	return nil
}

func Lits() []func() Iter[string] {
	return []func() Iter[string]{
		func() Iter[string] {
			for _, c := range "ab" {
				Yield(string(c))
			}
			return nil
		},
		func() Iter[string] {
			for i := range []int{1, 2} {
				Yield(string(rune('x' + i)))
			}
			return nil
		},
	}
}
GO
cp "$d/zzd/a/src/p/gen.go" "$d/zzd/c/src/p/gen.go"
# neighbours: a large file of the same package sorted before gen.go, one after, and another package
{ echo 'package p'; echo; echo 'import . "github.com/goghcrow/go-co"'; echo
  for i in $(seq 1 40); do echo "func Aaa$i(n int) Iter[int] { for i := range make([]int, n) { Yield(i + $i) }; return nil }"; done; } > "$d/zzd/c/src/p/aaa.go"
{ echo 'package p'; echo; echo 'import . "github.com/goghcrow/go-co"'; echo
  echo 'func Zzz(xs []string) Iter[string] { for _, x := range xs { Yield(x) }; return nil }'; } > "$d/zzd/c/src/p/zzz.go"
{ echo 'package q'; echo; echo 'import . "github.com/goghcrow/go-co"'; echo
  for i in $(seq 1 15); do echo "func Q$i(m map[int]int) Iter[int] { for k, v := range m { Yield(k*v + $i) }; return nil }"; done; } > "$d/zzd/c/src/q/q.go"
cd "$d"
go build -o "$d/zzd/cotool" ./zzd/tool 2>"$d/build.err" || { echo "DETERMINISM-FAIL: compiler does not build: $(head -3 "$d/build.err" | tr '\n' ' ')"; exit 1; }
run() { out=$("$d/zzd/cotool" "$1" "$2" $3 2>"$d/run.err"); st=$?; if [ $st -ne 0 ]; then echo "DETERMINISM-FAIL: compiler failed on $1: $(echo "$out" | grep COMPILER-PANIC | cut -c1-300) $(grep -v "^\[" "$d/run.err" | head -5 | tr "\n" " " | cut -c1-400)"; exit 1; fi; }
run "$d/zzd/a/src" "$d/zzd/a/out";  cp "$d/zzd/a/out/p/gen.go" "$d/A.txt" || { echo "DETERMINISM-FAIL: no output for p/gen.go"; exit 1; }
run "$d/zzd/a/src" "$d/zzd/a/out";  cp "$d/zzd/a/out/p/gen.go" "$d/B.txt"
run "$d/zzd/c/src" "$d/zzd/c/out";  cp "$d/zzd/c/out/p/gen.go" "$d/C.txt"
if ! cmp -s "$d/A.txt" "$d/B.txt"; then echo "DETERMINISM-FAIL: p/gen.go differs between two runs into the same destination: $(diff "$d/A.txt" "$d/B.txt" | grep '^[<>]' | head -4 | tr '\n' ' ' | cut -c1-300)"; exit 1; fi
if ! cmp -s "$d/A.txt" "$d/C.txt"; then echo "DETERMINISM-FAIL: p/gen.go differs when sibling files and another package are compiled with it: $(diff "$d/A.txt" "$d/C.txt" | grep '^[<>]' | head -4 | tr '\n' ' ' | cut -c1-300)"; exit 1; fi
dups=$(grep -oE 'ɪʇ[0-9]+ :=' "$d/A.txt" | sort | uniq -d | tr '\n' ' ')
if [ -n "$dups" ]; then echo "DETERMINISM-FAIL: helper identifiers declared twice in p/gen.go: $dups"; exit 1; fi
n=$(grep -cE 'ɪʇ[0-9]+ :=' "$d/A.txt")
if [ "$n" -lt 5 ]; then echo "DETERMINISM-FAIL: expected at least 5 helper declarations in p/gen.go, found $n (harness lost its subject)"; exit 1; fi
if ! go build ./zzd/c/out/... 2>"$d/b2.err"; then echo "DETERMINISM-FAIL: generated packages do not build: $(head -3 "$d/b2.err" | tr '\n' ' ' | cut -c1-300)"; exit 1; fi
# (D) outputs of an earlier run with a *different* neighbour are on disk: the generated text depends on the whole package
#     (the type of load() decides the iterator constructor), so it must be what a fresh compile of the current sources gives
mkdir -p "$d/zzd/e/src/p"
cat > "$d/zzd/e/src/p/gen.go" <<'GO'
package p

import (
	. "github.com/goghcrow/go-co"
)

func Keys() Iter[int] {
	for k := range load() {
		Yield(k)
	}
	return nil
}
GO
printf 'package p\n\ntype Items []string\n\nfunc load() Items { return Items{"a", "b"} }\n' > "$d/zzd/e/src/p/items.go"
run "$d/zzd/e/src" "$d/zzd/e/out"
sleep 1.1
printf 'package p\n\ntype Items map[int]string\n\nfunc load() Items { return Items{1: "a"} }\n' > "$d/zzd/e/src/p/items.go"
run "$d/zzd/e/src" "$d/zzd/e/out";   cp "$d/zzd/e/out/p/gen.go" "$d/D1.txt"
run "$d/zzd/e/src" "$d/zzd/e/fresh"; cp "$d/zzd/e/fresh/p/gen.go" "$d/D2.txt"
if ! cmp -s "$d/D1.txt" "$d/D2.txt"; then echo "DETERMINISM-FAIL: with outputs of an earlier run (other neighbour) on disk p/gen.go differs from a fresh compile of the same sources: $(diff "$d/D1.txt" "$d/D2.txt" | grep '^[<>]' | head -4 | tr '\n' ' ' | cut -c1-300)"; exit 1; fi
# (E) files left in <dst>_tmp by an interrupted run must not reach the output
mkdir -p "$d/zzd/a/out2_tmp/p"
printf 'package p\n\nimport "github.com/goghcrow/go-co/seq"\n\nvar Stale seq.Iterator[int]\n' > "$d/zzd/a/out2_tmp/p/stale.go"
run "$d/zzd/a/src" "$d/zzd/a/out2"
if [ -e "$d/zzd/a/out2/p/stale.go" ]; then echo "DETERMINISM-FAIL: a file left in <dst>_tmp by an earlier (interrupted) run was emitted into the output: p/stale.go"; exit 1; fi
if ! cmp -s "$d/A.txt" "$d/zzd/a/out2/p/gen.go"; then echo "DETERMINISM-FAIL: p/gen.go differs when <dst>_tmp holds files of an earlier run"; exit 1; fi
# (F) test packages loaded (as cogen does): an in-package test file with a generator, alone and next to an unrelated non-test generator
#     file of the same package (the loader then returns the package twice, p and p [p.test], under one import path)
mkdir -p "$d/zzd/f1/src/p" "$d/zzd/f2/src/p"
cat > "$d/zzd/f1/src/p/gen_test.go" <<'GO'
package p

import (
	"testing"

	. "github.com/goghcrow/go-co"
)

func countTo(n int) (_ Iter[int]) {
	for i := 0; i < n; i++ {
		Yield(i)
	}
	for _, x := range []int{40, 2} {
		Yield(x)
	}
	return
}

func TestCount(t *testing.T) {
	sum := 0
	for v := range countTo(3) {
		sum += v
	}
	if sum != 45 {
		t.Fatal(sum)
	}
}
GO
cp "$d/zzd/f1/src/p/gen_test.go" "$d/zzd/f2/src/p/gen_test.go"
printf 'package p\n\nimport . "github.com/goghcrow/go-co"\n\nfunc Ones() (_ Iter[int]) {\n\tfor {\n\t\tYield(1)\n\t}\n}\n' > "$d/zzd/f2/src/p/lib.go"
run "$d/zzd/f1/src" "$d/zzd/f1/out" with-tests; cp "$d/zzd/f1/out/p/gen_test.go" "$d/F1.txt" 2>/dev/null || { echo "DETERMINISM-FAIL: no output for p/gen_test.go with test packages loaded"; exit 1; }
run "$d/zzd/f2/src" "$d/zzd/f2/out" with-tests; cp "$d/zzd/f2/out/p/gen_test.go" "$d/F2.txt" 2>/dev/null || { echo "DETERMINISM-FAIL: no output for p/gen_test.go next to lib.go with test packages loaded"; exit 1; }
grep -q 'Start\[int\]' "$d/F1.txt" || { echo "DETERMINISM-FAIL: p/gen_test.go was not compiled (harness lost its subject)"; exit 1; }
if ! cmp -s "$d/F1.txt" "$d/F2.txt"; then echo "DETERMINISM-FAIL: p/gen_test.go (in-package test, test packages loaded) differs when an unrelated non-test generator file sits in the same package: $(diff "$d/F1.txt" "$d/F2.txt" | grep '^[<>]' | head -4 | tr '\n' ' ' | cut -c1-300)"; exit 1; fi
echo "DETERMINISM-OK: p/gen.go byte-identical alone, re-run over earlier outputs, among sibling files + another package, over outputs of a run with another neighbour, and with leftovers in <dst>_tmp; p/gen_test.go byte-identical alone and next to a non-test generator file with test packages loaded; $n helper identifiers pairwise distinct"
