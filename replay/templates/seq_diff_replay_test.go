package seq

// Replay / spec-validation harness for the combinators and the generator
// protocol (C08, C09, C02, C05, C14, C18): the real package against an
// independent direct-style reference interpreter (goroutine coroutines), on
// enumerated and seeded-random term DAGs with stateful thunks, under consumer
// histories of MoveNext / Send / Current / Result, with shared Seq values
// started several times and interleaved. Injected with `go test -overlay`.

import (
	"fmt"
	"math/rand"
	"os"
	"strconv"
	"strings"
	"testing"
)

type vNode struct {
	kind             string // normal break continue return retv bind bindr branch delay combine for
	v                int
	a, b             *vNode
	condN            int
	hasCond, hasPost bool
	id               int
	shared           bool
	logs             bool
}

type vWorld struct {
	log   []string
	cnt   map[int]int
	cache map[*vNode]Seq[int]
}

func newVWorld() *vWorld { return &vWorld{cnt: map[int]int{}, cache: map[*vNode]Seq[int]{}} }
func (w *vWorld) say(n *vNode, f string, a ...any) {
	if n.logs {
		w.log = append(w.log, fmt.Sprintf(f, a...))
	}
}

// ---- real side

func vBuild(n *vNode, w *vWorld) Seq[int] {
	if n.shared {
		if s, ok := w.cache[n]; ok {
			return s
		}
	}
	var s Seq[int]
	switch n.kind {
	case "normal":
		s = Normal[int]()
	case "break":
		s = Break[int]()
	case "continue":
		s = Continue[int]()
	case "return":
		s = Return[int]()
	case "retv":
		s = ReturnValue(n.v)
	case "bind":
		s = Bind(n.v, func() Seq[int] { w.say(n, "t%d", n.id); return vBuild(n.a, w) })
	case "bindr":
		s = BindRecv(n.v, func(x int) Seq[int] { w.say(n, "r%d:%d", n.id, x); return vBuild(n.a, w) })
	case "branch":
		s = BindRecv(n.v, func(x int) Seq[int] {
			w.say(n, "b%d:%d", n.id, x)
			if x == 1 {
				return vBuild(n.a, w)
			}
			return vBuild(n.b, w)
		})
	case "delay":
		s = Delay(func() Seq[int] { w.say(n, "d%d", n.id); return vBuild(n.a, w) })
	case "combine":
		s = Combine(vBuild(n.a, w), vBuild(n.b, w))
	case "for":
		var cond func() bool
		var post func()
		if n.hasCond {
			cond = func() bool { w.say(n, "c%d", n.id); w.cnt[n.id]++; return w.cnt[n.id] <= n.condN }
		}
		if n.hasPost {
			post = func() { w.say(n, "p%d", n.id) }
		}
		body := vBuild(n.a, w)
		switch {
		case cond == nil && post == nil && n.v%2 == 0:
			s = Loop(body)
		case post == nil && n.v%2 == 0:
			s = While(cond, body)
		default:
			s = For(cond, post, body)
		}
	default:
		panic("bad node " + n.kind)
	}
	if n.shared {
		w.cache[n] = s
	}
	return s
}

// ---- reference side: direct-style interpreter run as a coroutine

const (
	vN = iota
	vB
	vC
	vR
)

type vEvt struct {
	done bool
	v    int
}

type vRefGen struct {
	root     *vNode
	w        *vWorld
	started  bool
	launched bool
	done     bool
	cur, res int
	resume   chan int
	out      chan vEvt
}

func (g *vRefGen) yield(v int) int { g.out <- vEvt{false, v}; return <-g.resume }

func (g *vRefGen) exec(n *vNode) (int, int) {
	w := g.w
	switch n.kind {
	case "normal":
		return vN, 0
	case "break":
		return vB, 0
	case "continue":
		return vC, 0
	case "return":
		return vR, 0
	case "retv":
		return vR, n.v
	case "bind":
		g.yield(n.v)
		w.say(n, "t%d", n.id)
		return g.exec(n.a)
	case "bindr":
		x := g.yield(n.v)
		w.say(n, "r%d:%d", n.id, x)
		return g.exec(n.a)
	case "branch":
		x := g.yield(n.v)
		w.say(n, "b%d:%d", n.id, x)
		if x == 1 {
			return g.exec(n.a)
		}
		return g.exec(n.b)
	case "delay":
		w.say(n, "d%d", n.id)
		return g.exec(n.a)
	case "combine":
		s, v := g.exec(n.a)
		if s != vN {
			return s, v
		}
		return g.exec(n.b)
	case "for":
		first := true
		for {
			if n.hasPost && !first {
				w.say(n, "p%d", n.id)
			}
			first = false
			if n.hasCond {
				w.say(n, "c%d", n.id)
				w.cnt[n.id]++
				if w.cnt[n.id] > n.condN {
					return vN, 0
				}
			}
			s, v := g.exec(n.a)
			switch s {
			case vB:
				return vN, 0
			case vR:
				return vR, v
			}
		}
	}
	panic("bad node")
}

func (g *vRefGen) advance(x int) bool {
	if g.done {
		return false
	}
	if !g.launched {
		g.launched = true
		g.resume = make(chan int)
		g.out = make(chan vEvt)
		go func() {
			<-g.resume
			_, v := g.exec(g.root)
			g.out <- vEvt{true, v}
		}()
	}
	g.resume <- x
	e := <-g.out
	if e.done {
		g.done = true
		g.cur = 0
		g.res = e.v
		return false
	}
	g.cur = e.v
	return true
}

func (g *vRefGen) MoveNext() bool { g.started = true; return g.advance(0) }
func (g *vRefGen) Send(x int) (int, bool) {
	if !g.started {
		g.started = true
		if !g.advance(0) {
			return 0, false
		}
	}
	if g.advance(x) {
		return g.cur, true
	}
	return 0, false
}

// ---- running one history on both sides

func vRunReal(root *vNode, ops string) (trace []string) {
	w := newVWorld()
	it := Start(vBuild(root, w)).(Generator[int])
	mark := 0
	flush := func(res string) {
		trace = append(trace, res+"{"+strings.Join(w.log[mark:], ",")+"}")
		mark = len(w.log)
	}
	flush("new")
	for _, op := range ops {
		switch op {
		case 'M':
			flush(fmt.Sprint("M=", it.MoveNext()))
		case 'C':
			flush(fmt.Sprint("C=", it.Current()))
		case 'R':
			flush(fmt.Sprint("R=", it.Result()))
		case '0', '1', '2':
			y, ok := it.Send(int(op - '0'))
			flush(fmt.Sprint("S=", y, ok))
		}
	}
	return
}

func vRunRef(root *vNode, ops string) (trace []string) {
	w := newVWorld()
	g := &vRefGen{root: root, w: w}
	mark := 0
	flush := func(res string) {
		trace = append(trace, res+"{"+strings.Join(w.log[mark:], ",")+"}")
		mark = len(w.log)
	}
	flush("new")
	for _, op := range ops {
		switch op {
		case 'M':
			flush(fmt.Sprint("M=", g.MoveNext()))
		case 'C':
			flush(fmt.Sprint("C=", g.cur))
		case 'R':
			flush(fmt.Sprint("R=", g.res))
		case '0', '1', '2':
			y, ok := g.Send(int(op - '0'))
			flush(fmt.Sprint("S=", y, ok))
		}
	}
	return
}

// ---- term generation

type vGen struct {
	r      *rand.Rand
	nextID int
	pool   []*vNode
}

func (g *vGen) node(kind string) *vNode {
	g.nextID++
	return &vNode{kind: kind, id: g.nextID, logs: true}
}

func (g *vGen) leaf() *vNode {
	ks := []string{"normal", "normal", "break", "continue", "return", "retv"}
	n := g.node(ks[g.r.Intn(len(ks))])
	n.v = 40 + g.r.Intn(3)
	return n
}

func (g *vGen) term(depth int) *vNode {
	if depth <= 0 || g.r.Intn(6) == 0 {
		return g.leaf()
	}
	if len(g.pool) > 0 && g.r.Intn(7) == 0 {
		n := g.pool[g.r.Intn(len(g.pool))] // reuse an existing sub-DAG: the same Seq value runs again
		n.shared = true
		return n
	}
	var n *vNode
	switch g.r.Intn(8) {
	case 0:
		n = g.node("bind")
		n.v = g.r.Intn(5)
		n.a = g.term(depth - 1)
	case 1:
		n = g.node("bindr")
		n.v = g.r.Intn(5)
		n.a = g.term(depth - 1)
	case 2:
		n = g.node("branch")
		n.v = g.r.Intn(5)
		n.a = g.term(depth - 1)
		n.b = g.term(depth - 1)
	case 3:
		n = g.node("delay")
		n.a = g.term(depth - 1)
	case 4, 5:
		n = g.node("combine")
		n.a = g.term(depth - 1)
		n.b = g.term(depth - 1)
	default:
		n = g.node("for")
		n.v = g.r.Intn(4)
		n.hasCond = g.r.Intn(4) != 0
		n.hasPost = g.r.Intn(2) == 0
		n.condN = g.r.Intn(3)
		body := g.term(depth - 1)
		if !n.hasCond {
			// every iteration of a condition-less loop yields, so a bounded consumer terminates
			y := g.node("bind")
			y.v = 9
			y.a = g.node("normal")
			c := g.node("combine")
			c.a, c.b = y, body
			body = c
		}
		n.a = body
	}
	if g.r.Intn(3) == 0 {
		g.pool = append(g.pool, n)
	}
	return n
}

func vShow(n *vNode, seen map[*vNode]bool) string {
	if n == nil {
		return ""
	}
	if seen[n] {
		return fmt.Sprintf("@%d", n.id)
	}
	seen[n] = true
	sh := ""
	if n.shared {
		sh = "*"
	}
	switch n.kind {
	case "bind", "bindr", "delay":
		return fmt.Sprintf("%s%s%d(%d,%s)", sh, n.kind, n.id, n.v, vShow(n.a, seen))
	case "branch", "combine":
		return fmt.Sprintf("%s%s%d(%d,%s,%s)", sh, n.kind, n.id, n.v, vShow(n.a, seen), vShow(n.b, seen))
	case "for":
		return fmt.Sprintf("%sfor%d(cond=%v/%d,post=%v,%s)", sh, n.id, n.hasCond, n.condN, n.hasPost, vShow(n.a, seen))
	case "retv":
		return fmt.Sprintf("retv(%d)", n.v)
	}
	return n.kind
}

func vHandTerms() []*vNode {
	id := 1000
	mk := func(kind string) *vNode { id++; return &vNode{kind: kind, id: id, logs: true} }
	y := func(v int, k *vNode) *vNode { n := mk("bind"); n.v = v; n.a = k; return n }
	seq2 := func(a, b *vNode) *vNode { n := mk("combine"); n.a, n.b = a, b; return n }
	loop := func(cond bool, cn int, post bool, body *vNode) *vNode {
		n := mk("for")
		n.hasCond, n.condN, n.hasPost, n.a, n.v = cond, cn, post, body, 1
		return n
	}
	var out []*vNode
	// a three-clause loop value nested directly in an outer loop (same Seq value re-run)
	inner := loop(true, 2, true, y(1, mk("normal")))
	inner.shared = true
	out = append(out, loop(true, 5, true, seq2(inner, y(2, mk("normal")))))
	// break / continue / return inside combine inside loop
	out = append(out, loop(true, 3, true, seq2(y(1, mk("continue")), y(2, mk("normal")))))
	out = append(out, loop(true, 3, true, seq2(y(1, mk("break")), y(2, mk("normal")))))
	rv := mk("retv")
	rv.v = 77
	out = append(out, seq2(loop(true, 3, false, seq2(y(1, rv), y(2, mk("normal")))), y(3, mk("normal"))))
	// associativity shapes
	a, b, c := y(1, mk("normal")), y(2, mk("break")), y(3, mk("normal"))
	out = append(out, loop(true, 2, false, seq2(seq2(a, b), c)), loop(true, 2, false, seq2(a, seq2(b, c))))
	out = append(out, seq2(mk("normal"), y(5, mk("normal"))), seq2(y(5, mk("normal")), mk("normal")))
	return out
}

func TestVerifReplayDiff(t *testing.T) {
	seed := int64(1)
	if s, err := strconv.ParseInt(os.Getenv("VERIF_SEED"), 10, 64); err == nil && s != 0 {
		seed = s
	}
	nTerms := 1500
	if s, err := strconv.Atoi(os.Getenv("VERIF_REPLAY_TERMS")); err == nil && s > 0 {
		nTerms = s
	}
	histories := []string{"MMMMMMMM", "MCMCMCMCR", "CMR", "0C1C2CR", "M1M0CMR", "MM", "R", "1", "MMMMMMMMMMMMRC"}
	fails := 0
	check := func(root *vNode) {
		for _, h := range histories {
			real := vRunReal(root, h)
			ref := vRunRef(root, h)
			if fmt.Sprint(real) != fmt.Sprint(ref) {
				fails++
				if fails <= 3 {
					t.Errorf("REPLAY-FAIL term %s history %s:\n  real %v\n  spec %v", vShow(root, map[*vNode]bool{}), h, real, ref)
				}
				return
			}
		}
	}
	for _, root := range vHandTerms() {
		check(root)
	}
	r := rand.New(rand.NewSource(seed))
	for i := 0; i < nTerms && fails < 3; i++ {
		g := &vGen{r: r}
		check(g.term(2 + r.Intn(3)))
	}

	// C14: iterators started from one shared, stateless Seq value and interleaved behave as when consumed alone
	id := 5000
	mk := func(kind string) *vNode { id++; return &vNode{kind: kind, id: id} }
	br := func(v int, a, b *vNode) *vNode { n := mk("branch"); n.v, n.a, n.b = v, a, b; return n }
	lp := func(body *vNode) *vNode { n := mk("for"); n.a = body; n.v = 1; return n }
	cb := func(a, b *vNode) *vNode { n := mk("combine"); n.a, n.b = a, b; return n }
	shared := []*vNode{
		lp(br(7, mk("break"), mk("normal"))),
		cb(lp(br(7, mk("break"), br(8, mk("continue"), mk("normal")))), br(-1, mk("normal"), mk("normal"))),
		cb(lp(cb(br(1, mk("break"), mk("normal")), br(2, mk("return"), mk("normal")))), br(3, mk("normal"), mk("normal"))),
	}
	scheds := []string{"ab", "aabb", "abab", "abba", "aaabbb", "ababab", "baabab", "abbbaa", "aabbaabb", "abcabc", "aabbcc", "cbacba"}
	sends := []int{0, 0, 2, 1, 0, 1, 0, 0}
	for _, root := range shared {
		for _, sc := range scheds {
			w := newVWorld()
			s := vBuild(root, w)
			its := map[rune]Generator[int]{}
			refs := map[rune]*vRefGen{}
			steps := map[rune]int{}
			for _, who := range sc {
				if its[who] == nil {
					its[who] = Start(s).(Generator[int])
					refs[who] = &vRefGen{root: root, w: newVWorld()}
				}
				x := sends[steps[who]%len(sends)]
				steps[who]++
				y1, ok1 := its[who].Send(x)
				y2, ok2 := refs[who].Send(x)
				if y1 != y2 || ok1 != ok2 {
					fails++
					if fails <= 5 {
						t.Errorf("REPLAY-FAIL interleaving %s on shared term %s: iterator %c step %d Send(%d) = (%d,%v), alone it yields (%d,%v)", sc, vShow(root, map[*vNode]bool{}), who, steps[who], x, y1, ok1, y2, ok2)
					}
					break
				}
			}
		}
	}
}
