package rewriter

// Replay harness for the termination checker (C01, C11): hasBreak and
// terminationChecker.isTerminating against go/types' own verdict ("missing
// return") on an enumerated family of statement lists. Injected with
// `go test -overlay`.

import (
	"fmt"
	"go/ast"
	"go/importer"
	"go/parser"
	"go/token"
	"go/types"
	"strings"
	"testing"
)

func vTermSnippets() []string {
	atoms := []string{"x++", "return 1", "break", "continue", ";", "panic(1)", "{ x++ }"}
	var lists []string
	// statements usable inside a loop body
	var stmts func(depth int) []string
	stmts = func(depth int) []string {
		out := append([]string(nil), atoms...)
		if depth == 0 {
			return out
		}
		sub := stmts(depth - 1)
		pick := func(i int) string { return sub[i%len(sub)] }
		for i := 0; i < len(sub); i++ {
			a, b, c := pick(i), pick(i*3+1), pick(i*5+2)
			out = append(out,
				fmt.Sprintf("if c { %s }", a),
				fmt.Sprintf("if c { %s } else { %s }", a, b),
				fmt.Sprintf("if c { %s } else if d { %s }", a, b),
				fmt.Sprintf("if c { %s } else if d { %s } else { %s }", a, b, c),
				fmt.Sprintf("{ %s; %s }", a, b),
				fmt.Sprintf("switch x { case 1: %s; default: %s }", a, b),
				fmt.Sprintf("switch x { case 1: %s; case 2: %s }", a, b),
				fmt.Sprintf("switch { case c: %s; fallthrough; default: %s }", a, b),
				fmt.Sprintf("for { %s }", strings.ReplaceAll(a, "continue", "x++")),
				fmt.Sprintf("for c { %s }", a),
				fmt.Sprintf("for { switch x { case 1: %s } }", a),
				fmt.Sprintf("for { %s; %s }", a, b),
				fmt.Sprintf("select { case <-ch: %s; default: %s }", a, b),
			)
		}
		return out
	}
	for _, s := range stmts(2) {
		lists = append(lists, s)
	}
	return lists
}

// vOracle: is `for { body }` / the list itself terminating according to go/types?
func vMissingReturn(src string) (bool, error) {
	fset := token.NewFileSet()
	f, err := parser.ParseFile(fset, "p.go", src, 0)
	if err != nil {
		return false, err
	}
	missing := false
	other := ""
	conf := types.Config{Importer: importer.Default(), Error: func(err error) {
		if strings.Contains(err.Error(), "missing return") {
			missing = true
		} else if other == "" {
			other = err.Error()
		}
	}}
	conf.Check("p", fset, []*ast.File{f}, nil)
	if other != "" {
		return false, fmt.Errorf("%s", other)
	}
	return missing, nil
}

func vParseBody(src string) (*ast.BlockStmt, map[*ast.CallExpr]bool, error) {
	fset := token.NewFileSet()
	f, err := parser.ParseFile(fset, "p.go", src, 0)
	if err != nil {
		return nil, nil, err
	}
	fd := f.Decls[len(f.Decls)-1].(*ast.FuncDecl)
	panics := map[*ast.CallExpr]bool{}
	ast.Inspect(fd, func(n ast.Node) bool {
		if c, ok := n.(*ast.CallExpr); ok {
			if id, ok := c.Fun.(*ast.Ident); ok && id.Name == "panic" {
				panics[c] = true
			}
		}
		return true
	})
	return fd.Body, panics, nil
}

func TestVerifReplayTerm(t *testing.T) {
	const pre = "package p\nvar x int\nvar c, d bool\nvar ch chan int\n"
	n, fails := 0, 0
	for _, s := range vTermSnippets() {
		// 1. hasBreak(body) vs "for { body }" is terminating
		if !strings.Contains(s, "continue") || true {
			src := pre + "func f() int { for { " + s + " } }"
			missing, err := vMissingReturn(src)
			if err == nil {
				body, _, _ := vParseBody(src)
				loop := body.List[0].(*ast.ForStmt)
				got, pan := func() (r bool, p any) {
					defer func() { p = recover() }()
					return hasBreak(loop.Body), nil
				}()
				n++
				// the loop is terminating iff it has no break referring to it
				if pan != nil {
					fails++
					t.Errorf("REPLAY-FAIL hasBreak panicked on `%s`: %v", s, pan)
				} else if missing && !got {
					fails++
					t.Errorf("REPLAY-FAIL hasBreak(`%s`) = false, but Go finds a break referring to the enclosing loop", s)
				}
			}
		}
		// 2. isTerminating(list) implies go/types accepts the function without "missing return"
		if !strings.Contains(s, "break") && !strings.Contains(s, "continue") {
			src := pre + "func f() int { " + s + " }"
			missing, err := vMissingReturn(src)
			if err == nil {
				body, panics, _ := vParseBody(src)
				got, pan := func() (r bool, p any) {
					defer func() { p = recover() }()
					return mkTerminationChecker(panics).isTerminating(body), nil
				}()
				n++
				if pan != nil {
					fails++
					t.Errorf("REPLAY-FAIL isTerminating panicked on `%s`: %v", s, pan)
				} else if got && missing {
					fails++
					t.Errorf("REPLAY-FAIL isTerminating(`%s`) = true, but Go reports a missing return", s)
				}
			}
		}
		if fails > 5 {
			break
		}
	}
	if n < 500 {
		t.Errorf("REPLAY-FAIL only %d cases were usable", n)
	}
	t.Logf("%d cases", n)
}
