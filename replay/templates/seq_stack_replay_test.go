package seq

// Replay harness for C17: call-stack depth observed inside loop bodies and
// right after loops, for loops that yield on every iteration (so the recorded
// finding about non-yielding iterations of seq.For plays no role), at two
// iteration counts. Injected with `go test -overlay`.

import (
	"runtime"
	"testing"
)

func vDepth() int {
	pcs := make([]uintptr, 1<<14)
	return runtime.Callers(0, pcs)
}

type vLoopForm struct {
	name string
	mk   func(n int, probe func(tag string)) Seq[int]
}

func vLoopForms() []vLoopForm {
	return []vLoopForm{
		{"for", func(n int, probe func(string)) Seq[int] {
			return Delay(func() Seq[int] {
				i := 0
				return Combine(For(func() bool { return i < n }, func() { i++ },
					Delay(func() Seq[int] { probe("body"); return Bind(i, Normal[int]) })),
					Delay(func() Seq[int] { probe("after"); return Normal[int]() }))
			})
		}},
		{"while", func(n int, probe func(string)) Seq[int] {
			return Delay(func() Seq[int] {
				i := 0
				return Combine(While(func() bool { return i < n },
					Delay(func() Seq[int] { probe("body"); i++; return Bind(i, Normal[int]) })),
					Delay(func() Seq[int] { probe("after"); return Normal[int]() }))
			})
		}},
		{"while-continue", func(n int, probe func(string)) Seq[int] {
			return Delay(func() Seq[int] {
				i := 0
				return Combine(While(func() bool { return i < n },
					Delay(func() Seq[int] {
						probe("body")
						i++
						return Bind(i, func() Seq[int] {
							if i%2 == 0 {
								return Continue[int]()
							}
							return Normal[int]()
						})
					})),
					Delay(func() Seq[int] { probe("after"); return Normal[int]() }))
			})
		}},
		{"loop-break", func(n int, probe func(string)) Seq[int] {
			return Delay(func() Seq[int] {
				i := 0
				return Combine(Loop(Delay(func() Seq[int] {
					probe("body")
					i++
					if i > n {
						return Break[int]()
					}
					return Bind(i, Normal[int])
				})),
					Delay(func() Seq[int] { probe("after"); return Normal[int]() }))
			})
		}},
		{"delegate", func(n int, probe func(string)) Seq[int] {
			// the shape the compiler emits for YieldFrom: While(it.MoveNext, Delay(Bind(it.Current(), Normal)))
			return Delay(func() Seq[int] {
				inner := Start(Delay(func() Seq[int] {
					i := 0
					return While(func() bool { return i < n }, Delay(func() Seq[int] { i++; return Bind(i, Normal[int]) }))
				}))
				return Combine(While(inner.MoveNext, Delay(func() Seq[int] { probe("body"); return Bind(inner.Current(), Normal[int]) })),
					Delay(func() Seq[int] { probe("after"); return Normal[int]() }))
			})
		}},
		{"combine-chain", func(n int, probe func(string)) Seq[int] {
			// n sequential yields produced by a loop: the depth after them must not depend on n
			return Delay(func() Seq[int] {
				i := 0
				return Combine(While(func() bool { return i < n }, Combine(Delay(func() Seq[int] { i++; return Bind(i, Normal[int]) }), Delay(func() Seq[int] { probe("body"); return Normal[int]() }))),
					Delay(func() Seq[int] { probe("after"); return Normal[int]() }))
			})
		}},
	}
}

func vMaxDepth(f vLoopForm, n int) map[string]int {
	max := map[string]int{}
	probe := func(tag string) {
		if d := vDepth(); d > max[tag] {
			max[tag] = d
		}
	}
	it := Start(f.mk(n, probe))
	for it.MoveNext() {
	}
	return max
}

func TestVerifReplayStack(t *testing.T) {
	for _, f := range vLoopForms() {
		small := vMaxDepth(f, 16)
		large := vMaxDepth(f, 5000)
		for _, tag := range []string{"body", "after"} {
			if large[tag] > small[tag]+8 {
				t.Errorf("REPLAY-FAIL loop form %q: call-stack depth at %q is %d for 16 iterations and %d for 5000 iterations (every iteration yields)", f.name, tag, small[tag], large[tag])
			}
		}
	}
}

// TestVerifKnownFindingD5 demonstrates the recorded finding: without a yield,
// seq.For nests Go frames per iteration. It is expected to FAIL on the
// unchanged tree and is run only to confirm that the finding still reproduces.
func TestVerifKnownFindingD5(t *testing.T) {
	depthAt := func(n int) int {
		max := 0
		i := 0
		it := Start(Delay(func() Seq[int] {
			return For(func() bool {
				if d := vDepth(); d > max {
					max = d
				}
				return i < n
			}, func() { i++ }, Normal[int]())
		}))
		for it.MoveNext() {
		}
		return max
	}
	a, b := depthAt(100), depthAt(2000)
	if b > a+8 {
		t.Errorf("REPLAY-FAIL D5: depth %d after 100 non-yielding iterations, %d after 2000", a, b)
	}
}
