package seq

// Replay harness for the range iterators (C10, C04): the real iterators against
// the native range statement on an enumerated family of inputs around the
// solver's counterexample shapes. Injected with `go test -overlay`.

import (
	"fmt"
	"math"
	"testing"
)

func verifReplayStrings() []string {
	alpha := []string{"a", "é", "世", "\xf0\x9f\x98\x80", "\xff", "\xc0", "\xe4\xb8", "\x80", "\xbf", "\x7f"}
	out := []string{""}
	var rec func(prefix string, n int)
	rec = func(prefix string, n int) {
		if n == 0 {
			return
		}
		for _, a := range alpha {
			s := prefix + a
			out = append(out, s)
			rec(s, n-1)
		}
	}
	rec("", 3)
	return out
}

func TestVerifReplayIter(t *testing.T) {
	fail := func(f string, a ...any) { t.Errorf("REPLAY-FAIL "+f, a...) }
	// integers
	for n := -2; n <= 5; n++ {
		var got, want []int
		for it := NewIntegerIter(n); it.MoveNext(); {
			got = append(got, it.Current().Key)
		}
		for i := 0; i < n; i++ {
			want = append(want, i)
		}
		if fmt.Sprint(got) != fmt.Sprint(want) {
			fail("NewIntegerIter(%d): got %v want %v", n, got, want)
			break
		}
	}
	// strings
	for _, s := range verifReplayStrings() {
		var got, want []string
		for it := NewStringIter(s); it.MoveNext(); {
			p := it.Current()
			got = append(got, fmt.Sprintf("%d:%U", p.Key, p.Val))
		}
		for i, r := range s {
			want = append(want, fmt.Sprintf("%d:%U", i, r))
		}
		if fmt.Sprint(got) != fmt.Sprint(want) {
			fail("NewStringIter(%q): got %v want %v", s, got, want)
			break
		}
	}
	// slices: length snapshot, live element reads
	for n := 0; n <= 4; n++ {
		mk := func() []int {
			s := make([]int, n, n+2)
			for i := range s {
				s[i] = i * 10
			}
			return s
		}
		a, b := mk(), mk()
		var got, want []string
		it := NewSliceIter(a)
		for it.MoveNext() {
			p := it.Current()
			got = append(got, fmt.Sprint(p.Key, p.Val))
			if p.Key+1 < len(a) {
				a[p.Key+1] += 7 // visible: elements are read live
			}
			a = append(a, 99) // not visible: length was snapshotted
		}
		for i, v := range b {
			want = append(want, fmt.Sprint(i, v))
			if i+1 < len(b) {
				b[i+1] += 7
			}
			b = append(b, 99)
		}
		if fmt.Sprint(got) != fmt.Sprint(want) {
			fail("NewSliceIter(len %d) with mutation: got %v want %v", n, got, want)
			break
		}
	}
	// maps, incl. nil interface keys/values and deletion during iteration
	func() {
		defer func() {
			if r := recover(); r != nil {
				fail("NewMapIter panicked: %v", r)
			}
		}()
		// (a nil interface *key* needs K = any, which go.mod's go 1.19 does not admit as comparable)
		m := map[string]any{"k": nil, "n": 1, "x": "x"}
		seen := map[string]int{}
		for it := NewMapIter(m); it.MoveNext(); {
			p := it.Current()
			seen[p.Key]++
			if m[p.Key] != p.Val {
				fail("NewMapIter: key %v value %v, map has %v", p.Key, p.Val, m[p.Key])
			}
		}
		if len(seen) != 3 {
			fail("NewMapIter: visited %v", seen)
		}
		for k, c := range seen {
			if c != 1 {
				fail("NewMapIter: key %v visited %d times", k, c)
			}
		}
		// keys that are not equal to themselves are still visited by range
		nan := math.NaN()
		m3 := map[float64]int{nan: 10, 1: 1}
		m3[nan] = 20
		var got3, want3 int
		for it := NewMapIter(m3); it.MoveNext(); {
			got3 += it.Current().Val
		}
		for _, v := range m3 {
			want3 += v
		}
		if got3 != want3 {
			fail("NewMapIter over a map with NaN keys: values sum to %d, range gives %d", got3, want3)
		}
		m2 := map[int]int{1: 1, 2: 2, 3: 3, 4: 4}
		n := 0
		for it := NewMapIter(m2); it.MoveNext(); {
			k := it.Current().Key
			if _, ok := m2[k]; !ok {
				fail("NewMapIter: deleted key %d was visited", k)
			}
			for d := range m2 {
				if d != k {
					delete(m2, d)
				}
			}
			n++
		}
		if n != 1 {
			fail("NewMapIter: %d entries visited after deleting all others", n)
		}
	}()
	// channels
	for n := 0; n <= 3; n++ {
		ch := make(chan int, n)
		for i := 0; i < n; i++ {
			ch <- i + 1
		}
		close(ch)
		var got []int
		for it := NewChanIter[int](ch); it.MoveNext(); {
			got = append(got, it.Current().Key)
		}
		if len(got) != n {
			fail("NewChanIter: got %v for %d buffered values", got, n)
		}
		for i, v := range got {
			if v != i+1 {
				fail("NewChanIter: got %v", got)
			}
		}
	}
}
