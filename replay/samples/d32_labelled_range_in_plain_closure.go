// want: [3]
package main

import (
	"fmt"

	. "github.com/goghcrow/go-co"
)

// C11: a labelled range loop inside a plain closure nested in a generator (labels are fine there) must not crash pass 1.
func g(xss [][]int) Iter[int] {
	count := func() int {
		n := 0
	L:
		for _, xs := range xss {
			for _, x := range xs {
				if x < 0 {
					continue L
				}
				n++
			}
		}
		return n
	}
	Yield(count())
	return nil
}

func main() {
	var out []int
	for v := range g([][]int{{1, 2}, {-1, 5}, {3}}) {
		out = append(out, v)
	}
	fmt.Println(out)
}
