// want: [100 201 302 100 201 302]
package main

import (
	"fmt"

	. "github.com/goghcrow/go-co"
)

// C13/C07: the callee of `func(i int) int { return table[i].apply(i) }` depends on the literal's own parameter through an index
// expression; with an outer i in scope the reduced form `table[i].apply` would even build.
type scale struct{ k int }

func (s scale) apply(x int) int { return s.k + x }

var table = []scale{{100}, {200}, {300}}

func Picker() func(int) int {
	i := 2
	_ = i
	return func(i int) int { return table[i].apply(i) }
}

func Scaled() Iter[int] {
	i := 0
	pick := func(i int) int { return table[i].apply(i) }
	for ; i < 3; i++ {
		Yield(pick(i))
	}
	return nil
}

func main() {
	var out []int
	p := Picker()
	for j := 0; j < 3; j++ {
		out = append(out, p(j))
	}
	for v := range Scaled() {
		out = append(out, v)
	}
	fmt.Println(out)
}
