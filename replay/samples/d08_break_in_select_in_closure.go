// want: [5 1]
package main

import (
	"fmt"

	. "github.com/goghcrow/go-co"
)

func g() Iter[int] {
	ch := make(chan int, 1)
	ch <- 5
	f := func() int {
		r := 0
		select {
		case v := <-ch:
			r = v
			break
		}
		return r
	}
	Yield(f())
	Yield(1)
	return nil
}

func main() {
	var out []int
	for v := range g() {
		out = append(out, v)
	}
	fmt.Println(out)
}
