// want: [1 2]
package main

import (
	"fmt"

	. "github.com/goghcrow/go-co"
)

func g() Iter[int] {
	for i := 0; i < 3; i++ {
		switch i {
		case 1:
			Yield(1)
		case 2:
			Yield(2)
		}
		;
	}
	return nil
}

func main() {
	var out []int
	for v := range g() {
		out = append(out, v)
	}
	fmt.Println(out)
}
