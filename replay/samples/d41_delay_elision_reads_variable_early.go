// want: [2 2 first-advance-panics]
package main

import (
	"fmt"

	. "github.com/goghcrow/go-co"
	"github.com/goghcrow/go-co/seq"
)

// C07/C13/C18: Delay elision must not move the read of a variable out of the thunk: a variable assigned between building the
// Delay and running it is read when the thunk runs; a nil receiver of a method-value condition faults at the first advance,
// not when the iterator is built.
type cnt struct{ n int }

func (c *cnt) more() bool { c.n--; return c.n >= 0 }

func late() seq.Iterator[int] {
	s := seq.Bind(1, seq.Normal[int])
	d := seq.Delay(func() seq.Seq[int] { return seq.Combine(s, s) })
	s = seq.Bind(2, seq.Normal[int])
	return seq.Start(d)
}

func poll(a *cnt) Iter[int] {
	for a.more() {
		Yield(1)
	}
	return nil
}

func main() {
	var out []string
	for it := late(); it.MoveNext(); {
		out = append(out, fmt.Sprint(it.Current()))
	}
	func() {
		var it seq.Iterator[int]
		defer func() {
			if r := recover(); r != nil {
				if it == nil {
					out = append(out, "construction-panics")
				} else {
					out = append(out, "first-advance-panics")
				}
			}
		}()
		it = poll(nil)
		it.MoveNext()
	}()
	fmt.Println(out)
}
