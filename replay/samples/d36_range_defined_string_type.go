// want: [0:97 1:233 3:98] [x y]
package main

import (
	"fmt"

	. "github.com/goghcrow/go-co"
)

// C04/C11: the operand of a string range may be of a defined string type; the runtime constructor takes a string.
type Name string

type Tag = string

func g(s Name, t Tag) Iter[string] {
	for i, r := range s {
		Yield(fmt.Sprintf("%d:%d", i, r))
	}
	n := 0
	for range s[1:] {
		n++
	}
	_ = n
	for _, r := range t {
		Yield(string(r))
	}
	return nil
}

func main() {
	var a, b []string
	for v := range g("aéb", "xy") {
		if len(v) > 1 {
			a = append(a, v)
		} else {
			b = append(b, v)
		}
	}
	fmt.Println(a, b)
}
