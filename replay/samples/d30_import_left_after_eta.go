// want: [1 2] 1.5s
package main

import (
	"fmt"
	"time"

	. "github.com/goghcrow/go-co"
)

// C07/C11: eta reduction drops the parameter types of the literal it removes; when they were the file's only
// mention of a package, the import has to go too (imports are cleaned before the reduction runs on the first file).
var show = func(d time.Duration) string { return render(d) }

func g() Iter[int] {
	Yield(1)
	Yield(2)
	return nil
}

func main() {
	var out []int
	for v := range g() {
		out = append(out, v)
	}
	fmt.Println(out, show(1500000000))
}
