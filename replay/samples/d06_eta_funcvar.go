// want: [1 2]
package main

import (
	"fmt"

	. "github.com/goghcrow/go-co"
)

func one(int) int { return 1 }
func two(int) int { return 2 }

func g() Iter[int] {
	h := one
	f := func(x int) int { return h(x) }
	Yield(f(0))
	h = two
	Yield(f(0))
	return nil
}

func main() {
	var out []int
	for v := range g() {
		out = append(out, v)
	}
	fmt.Println(out)
}
