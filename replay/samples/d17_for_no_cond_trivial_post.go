// want: [0 1 2]
package main

import (
	"fmt"

	. "github.com/goghcrow/go-co"
)

func g() Iter[int] {
	for j := 0; ; j++ {
		Yield(j)
		if j == 2 {
			break
		}
	}
	return nil
}

func main() {
	var out []int
	for v := range g() {
		out = append(out, v)
	}
	fmt.Println(out)
}
