// want: [0 1 2]
package main

import (
	"fmt"

	. "github.com/goghcrow/go-co"
)

// C04/C18: with at most one iteration variable and a constant len(x) the range expression is not evaluated (Go spec):
// ranging over the array field of a nil pointer yields the indices and does not panic.
type T struct{ arr [3]int }

func g(p *T) Iter[int] {
	for i := range p.arr {
		Yield(i)
	}
	return nil
}

func main() {
	var out []int
	for v := range g(nil) {
		out = append(out, v)
	}
	fmt.Println(out)
}
