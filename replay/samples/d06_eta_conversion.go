// want: [7]
package main

import (
	"fmt"

	. "github.com/goghcrow/go-co"
)

func g() Iter[int] {
	f := func(x int8) int { return int(x) }
	Yield(f(7))
	return nil
}

func main() {
	var out []int
	for v := range g() {
		out = append(out, v)
	}
	fmt.Println(out)
}
