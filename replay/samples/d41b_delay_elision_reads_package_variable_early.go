// want: [2 2]
package main

import (
	"fmt"

	. "github.com/goghcrow/go-co"
	"github.com/goghcrow/go-co/seq"
	"github.com/goghcrow/go-co/zzs/lib41"
)

// C07/C13: a package-qualified variable is a variable as well: it is read when the Delay thunk runs.
func late() seq.Iterator[int] {
	d := seq.Delay(func() seq.Seq[int] { return seq.Combine(lib41.Tail, lib41.Tail) })
	lib41.Tail = seq.Bind(2, seq.Normal[int])
	return seq.Start(d)
}

func g() Iter[int] {
	Yield(0)
	return nil
}

func main() {
	var out []int
	for it := late(); it.MoveNext(); {
		out = append(out, it.Current())
	}
	_ = g
	fmt.Println(out)
}
