// want: [1]
package main

import (
	"fmt"

	. "github.com/goghcrow/go-co"
)

func sum(xs []int) int {
	t := 0
	for i := 0; i < len(xs); i++ {
		t += xs[i]
	}
	return t
}

func kind(f any) int {
	switch f.(type) {
	case func(...int) int:
		return 1
	case func([]int) int:
		return 2
	}
	return 0
}

func g() Iter[int] {
	var f any = func(xs ...int) int { return sum(xs) }
	Yield(kind(f))
	return nil
}

func main() {
	var out []int
	for v := range g() {
		out = append(out, v)
	}
	fmt.Println(out)
}
