// want: [nth-ok created 0 1 done nth-oob created panic@1:index share-zero created panic@1:div after created -1 panic@2:index]
package main

import (
	"fmt"
	"strings"

	. "github.com/goghcrow/go-co"
)

// C18/C05: a generator whose body is only YieldFrom(g(args)) still evaluates g(args) in its first advance,
// not when the generator is created; a panic of the argument expressions leaves MoveNext #1.
func upTo(n int) Iter[int] {
	for i := 0; i < n; i++ {
		Yield(i)
	}
	return nil
}

func nth(sizes []int, i int) Iter[int] {
	YieldFrom(upTo(sizes[i]))
	return nil
}

func share(total, parts int) Iter[int] {
	YieldFrom(upTo(total / parts))
	return nil
}

func after(sizes []int, i int) Iter[int] {
	Yield(-1)
	YieldFrom(upTo(sizes[i]))
	return nil
}

func trace(name string, mk func() Iter[int], out *[]string) {
	*out = append(*out, name)
	n := 0
	defer func() {
		if r := recover(); r != nil {
			s := fmt.Sprint(r)
			k := "other"
			if strings.Contains(s, "index out of range") {
				k = "index"
			} else if strings.Contains(s, "divide by zero") {
				k = "div"
			}
			*out = append(*out, fmt.Sprintf("panic@%d:%s", n, k))
		}
	}()
	it := mk()
	*out = append(*out, "created")
	for {
		n++
		if !it.MoveNext() {
			break
		}
		*out = append(*out, fmt.Sprint(it.Current()))
	}
	*out = append(*out, "done")
}

func main() {
	var out []string
	trace("nth-ok", func() Iter[int] { return nth([]int{2}, 0) }, &out)
	trace("nth-oob", func() Iter[int] { return nth([]int{2}, 3) }, &out)
	trace("share-zero", func() Iter[int] { return share(4, 0) }, &out)
	trace("after", func() Iter[int] { return after([]int{2}, 3) }, &out)
	fmt.Println(out)
}
