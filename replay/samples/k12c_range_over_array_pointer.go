// want: REJECT-OR [1 3 6 10 1 2 30 1 3 6]
package main

import (
	"fmt"

	. "github.com/goghcrow/go-co"
)

// C12/C04: a range over a pointer to an array never copies the array: the loop sees writes made through the pointer while it
// runs. The compiler may refuse the yielding forms with a diagnostic; what it accepts must behave like the Go loop.
func prefixSums(p *[4]int) Iter[int] {
	for i, v := range p {
		if i+1 < len(p) {
			p[i+1] += v
		}
		Yield(v)
	}
	return nil
}

func live(p *[3]int) Iter[int] {
	for _, v := range p {
		Yield(v)
	}
	return nil
}

func plain(p *[3]int) Iter[int] {
	var out []int
	for i, v := range p { // no yield inside: the loop may stay as it is
		if i+1 < len(p) {
			p[i+1] += v
		}
		out = append(out, v)
	}
	for _, v := range out {
		Yield(v)
	}
	return nil
}

func main() {
	var out []int
	for v := range prefixSums(&[4]int{1, 2, 3, 4}) {
		out = append(out, v)
	}
	arr := [3]int{1, 2, 3}
	for v := range live(&arr) {
		out = append(out, v)
		arr[2] = 30
	}
	for v := range plain(&[3]int{1, 2, 3}) {
		out = append(out, v)
	}
	fmt.Println(out)
}
