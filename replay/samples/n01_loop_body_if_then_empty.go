// want: [1 1]
package main

import (
	"fmt"

	. "github.com/goghcrow/go-co"
)

func g() Iter[int] {
	c := true
	for i := 0; i < 2; i++ {
		if c {
			Yield(1)
		}
		;
	}
	return nil
}

func main() {
	var out []int
	for v := range g() {
		out = append(out, v)
	}
	fmt.Println(out)
}
