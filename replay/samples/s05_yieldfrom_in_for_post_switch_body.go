// want: [1 1 -3 2 1 999]
package main

import (
	"fmt"

	. "github.com/goghcrow/go-co"
)

func down(n int) Iter[int] {
	for i := n; i > 0; i-- {
		Yield(i)
	}
	return nil
}

func g() Iter[int] {
	for i := 1; i <= 2; YieldFrom(down(i - 1)) {
		i++
		switch i {
		case 2:
			Yield(1)
		default:
			Yield(-i)
		}
	}
	Yield(999)
	return nil
}

func main() {
	var out []int
	for v := range g() {
		out = append(out, v)
	}
	fmt.Println(out)
}
