// want: [3]
package main

import (
	"fmt"

	. "github.com/goghcrow/go-co"
)

func src(n int) Iter[int] {
	for i := 0; i < n; i++ {
		Yield(i)
	}
	return nil
}

type holder struct{ cur, spare Iter[int] }

func count() int {
	h := &holder{cur: src(3), spare: src(0)}
	n := 0
	for _ = range h.cur {
		h.cur, h.spare = h.spare, h.cur
		n++
	}
	return n
}

func g() Iter[int] {
	Yield(count())
	return nil
}

func main() {
	var out []int
	for v := range g() {
		out = append(out, v)
	}
	fmt.Println(out)
}
