// want: [1 2 9]
package main

import (
	"fmt"

	. "github.com/goghcrow/go-co"
)

func g() Iter[int] {
	c, x := true, 1
	if c {
		switch Yield(1); x {
		case 1:
			Yield(2)
		}
	}
	Yield(9)
	return nil
}

func main() {
	var out []int
	for v := range g() {
		out = append(out, v)
	}
	fmt.Println(out)
}
