// want: [0 1 7]
package main

import (
	"fmt"

	. "github.com/goghcrow/go-co"
)

func g() Iter[int] {
	n := 0
	for i := 0; i < 2; i++ {
		Yield(i)
		for {
			if n > 100 {
				n = 0
			} else if n >= 0 {
				n += 7
				break
			}
		}
	}
	Yield(n - 7)
	return nil
}

func main() {
	var out []int
	for v := range g() {
		out = append(out, v)
	}
	fmt.Println(out)
}
