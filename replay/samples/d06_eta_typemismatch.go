// want: [4]
package main

import (
	"fmt"

	. "github.com/goghcrow/go-co"
)

type num int

func dbl(x num) num { return x * 2 }

func g() Iter[int] {
	var f func(num) num = func(x num) num { return dbl(x) }
	apply := func(k func(num) num, v num) num { return k(v) }
	Yield(int(apply(f, 2)))
	return nil
}

func main() {
	var out []int
	for v := range g() {
		out = append(out, v)
	}
	fmt.Println(out)
}
