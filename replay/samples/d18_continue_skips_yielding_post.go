// want: [1 101 102 3 103]
package main

import (
	"fmt"

	. "github.com/goghcrow/go-co"
)

func g() Iter[int] {
	for i := 0; i < 3; Yield(100 + i) {
		i++
		if i == 2 {
			continue
		}
		Yield(i)
	}
	return nil
}

func main() {
	var out []int
	for v := range g() {
		out = append(out, v)
	}
	fmt.Println(out)
}
