// want: [10 20]
package main

import (
	"fmt"

	. "github.com/goghcrow/go-co"
)

func g() Iter[int] {
	for i := 0; i < 4; i++ {
		switch i {
		case 1:
			Yield(10)
			break
		case 2:
			Yield(20)
		}
	}
	return nil
}

func main() {
	var out []int
	for v := range g() {
		out = append(out, v)
	}
	fmt.Println(out)
}
