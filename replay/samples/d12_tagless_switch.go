// want: [1 3]
package main

import (
	"fmt"

	. "github.com/goghcrow/go-co"
)

func g() Iter[int] {
	for i := 0; i < 3; i++ {
		switch {
		case i == 0:
			Yield(1)
		case i == 2:
			Yield(3)
		default:
		}
		_ = i
	}
	return nil
}

func main() {
	var out []int
	for v := range g() {
		out = append(out, v)
	}
	fmt.Println(out)
}
