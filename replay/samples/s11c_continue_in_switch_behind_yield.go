// want: [0 0 1 2 20 3 neg zero pos]
package main

import (
	"fmt"

	. "github.com/goghcrow/go-co"
)

// C11/C06: `continue` inside a native switch that sits in the callback of a lowered (yielding) loop, no native loop in between:
// it continues the generator's loop (seq.Continue), it is not a native continue.
func skipOdd(n int) Iter[int] {
	for i := 0; i < n; i++ {
		Yield(i)
		switch {
		case i%2 == 1:
			continue
		}
		Yield(10 * i)
	}
	return nil
}

func classify(xs []int) Iter[string] {
	for _, x := range xs {
		switch {
		case x == 7:
			continue
		case x < 0:
			Yield("neg")
		case x == 0:
			Yield("zero")
		default:
			Yield("pos")
		}
	}
	return nil
}

func main() {
	var out []string
	for v := range skipOdd(4) {
		out = append(out, fmt.Sprint(v))
	}
	for v := range classify([]int{-1, 7, 0, 7, 5}) {
		out = append(out, v)
	}
	fmt.Println(out)
}
