// want: [first 10 got 11 got 12 after 13]
package main

import (
	"fmt"

	. "github.com/goghcrow/go-co"
)

// C06/C02: a pull-style consumer that is itself a generator re-yields it.Current(); the operand is evaluated when the yield
// is reached (each iteration), not when the loop is built.
func src() Iter[int] {
	for i := 10; i < 15; i++ {
		Yield(i)
	}
	return nil
}

func relay(it Iter[int]) Iter[int] {
	for it.MoveNext() {
		Yield(it.Current())
	}
	return nil
}

func main() {
	var out []string
	s := src()
	s.MoveNext()
	out = append(out, fmt.Sprint("first ", s.Current()))
	for v := range relay(s) {
		out = append(out, fmt.Sprint("got ", v))
		if v == 12 {
			break
		}
	}
	if s.MoveNext() {
		out = append(out, fmt.Sprint("after ", s.Current()))
	}
	fmt.Println(out)
}
