// want: REJECT-OR [1 2 3]
package main

import (
	"fmt"

	. "github.com/goghcrow/go-co"
)

// C12: Yield used as a function value is outside the supported subset; the call through the variable is not
// recognised, is emitted as a call of the empty stub, and its value is silently dropped.
func g() Iter[int] {
	y := Yield[int]
	Yield(1)
	y(2)
	Yield(3)
	return nil
}

func main() {
	var out []int
	for v := range g() {
		out = append(out, v)
	}
	fmt.Println(out)
}
