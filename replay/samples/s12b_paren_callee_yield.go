// want: [1 2 3]
package main

import (
	"fmt"

	. "github.com/goghcrow/go-co"
)

func g() Iter[int] {
	Yield(1)
	(Yield[int])(2)
	Yield(3)
	return nil
}

func main() {
	var out []int
	for v := range g() {
		out = append(out, v)
	}
	fmt.Println(out)
}
