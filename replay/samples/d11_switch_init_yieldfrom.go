// want: [1 2 9]
package main

import (
	"fmt"

	. "github.com/goghcrow/go-co"
)

func h() Iter[int] {
	Yield(1)
	Yield(2)
	return nil
}

func g() Iter[int] {
	x := 3
	r := 0
	switch YieldFrom(h()); x {
	case 3:
		r = 9
	}
	Yield(r)
	return nil
}

func main() {
	var out []int
	for v := range g() {
		out = append(out, v)
	}
	fmt.Println(out)
}
