// want: REJECT-OR [1 30 40 5]
package main

import (
	"fmt"

	. "github.com/goghcrow/go-co"
)

func g() Iter[int] {
	a := 2
	Yield(1)
	if a == 1 {
		Yield(2)
	} else if Yield(30); a == 2 {
		Yield(40)
	}
	Yield(5)
	return nil
}

func main() {
	var out []int
	for v := range g() {
		out = append(out, v)
	}
	fmt.Println(out)
}
