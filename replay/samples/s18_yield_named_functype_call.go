// want: [1 2 -1]
package main

import (
	"fmt"

	. "github.com/goghcrow/go-co"
)

type decoder func(string) int

func g() Iter[int] {
	var decode decoder = func(s string) int {
		if s == "bad" {
			return -1
		}
		return len(s)
	}
	Yield(1)
	Yield(2)
	Yield(decode("bad"))
	return nil
}

func main() {
	var out []int
	for v := range g() {
		out = append(out, v)
	}
	fmt.Println(out)
}
