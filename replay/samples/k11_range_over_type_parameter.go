// want: [2 3 2]
// C11: a range over an operand of type-parameter type stays a native range statement (no constructor is generic over ~string).
package main

import (
	"fmt"

	. "github.com/goghcrow/go-co"
)

func Count[S ~string, L ~[]E, E any, M ~map[string]E](s S, l L, m M) Iter[int] {
	n := 0
	for range s {
		n++
	}
	Yield(n)
	n = 0
	for range l {
		n++
	}
	Yield(n)
	n = 0
	for range m {
		n++
	}
	Yield(n)
	return nil
}

type Name string

func main() {
	var out []int
	for v := range Count(Name("ab"), []int{1, 2, 3}, map[string]int{"a": 1, "b": 2}) {
		out = append(out, v)
	}
	fmt.Println(out)
}
