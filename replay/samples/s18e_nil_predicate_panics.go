// want: [a 0 1 2 done b panic@1:nil c 10 panic@2:nil]
package main

import (
	"fmt"
	"strings"

	. "github.com/goghcrow/go-co"
)

// C18/C07: a loop condition that calls a func-typed parameter panics when the parameter is nil, in the advance that
// evaluates the condition; handing the variable itself to seq.While would turn the nil into "no condition".
func count(more func() bool) Iter[int] {
	i := 0
	for more() {
		Yield(i)
		i++
	}
	return nil
}

func outer(more func() bool) Iter[int] {
	Yield(10)
	YieldFrom(count(more))
	return nil
}

func trace(name string, it Iter[int], out *[]string) {
	*out = append(*out, name)
	n := 0
	defer func() {
		if r := recover(); r != nil {
			k := "other"
			if strings.Contains(fmt.Sprint(r), "nil pointer") {
				k = "nil"
			}
			*out = append(*out, fmt.Sprintf("panic@%d:%s", n, k))
		}
	}()
	for n < 6 {
		n++
		if !it.MoveNext() {
			*out = append(*out, "done")
			return
		}
		*out = append(*out, fmt.Sprint(it.Current()))
	}
	*out = append(*out, "cut")
}

func main() {
	var out []string
	k := 0
	trace("a", count(func() bool { k++; return k <= 3 }), &out)
	trace("b", count(nil), &out)
	trace("c", outer(nil), &out)
	fmt.Println(out)
}
