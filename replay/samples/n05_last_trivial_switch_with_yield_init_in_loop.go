// want: [1 1 2]
package main

import (
	"fmt"

	. "github.com/goghcrow/go-co"
)

func g() Iter[int] {
	n := 0
	for i := 0; i < 2; i++ {
		switch Yield(1); i {
		case 1:
			n += 2
		}
	}
	Yield(n)
	return nil
}

func main() {
	var out []int
	for v := range g() {
		out = append(out, v)
	}
	fmt.Println(out)
}
