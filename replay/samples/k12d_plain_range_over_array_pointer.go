// want: [1 3 6]
package main

import (
	"fmt"

	. "github.com/goghcrow/go-co"
)

// C12/C04/C13: the same without a yield in the loop: accepted today (the range statement stays native), so it has to stay right.
func plain(p *[3]int) Iter[int] {
	var out []int
	for i, v := range p {
		if i+1 < len(p) {
			p[i+1] += v
		}
		out = append(out, v)
	}
	for _, v := range out {
		Yield(v)
	}
	return nil
}

func main() {
	var out []int
	for v := range plain(&[3]int{1, 2, 3}) {
		out = append(out, v)
	}
	fmt.Println(out)
}
