// want: [0 2 4]
package main

import (
	"fmt"

	. "github.com/goghcrow/go-co"
)

// C06/C11: the loop variable of `for v := range it` is declared in the scope of the for statement, so the
// body may declare v again; the lowered loop puts `v := it.Current()` into the body block itself.
func gen(n int) Iter[int] {
	for i := 0; i < n; i++ {
		Yield(i)
	}
	return nil
}

func main() {
	var out []int
	for v := range gen(3) {
		v := v * 2
		out = append(out, v)
	}
	fmt.Println(out)
}
