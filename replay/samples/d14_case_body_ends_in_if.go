// want: [1 5]
package main

import (
	"fmt"

	. "github.com/goghcrow/go-co"
)

func g() Iter[int] {
	c := true
	for n := 1; n < 3; n++ {
		switch n {
		case 1:
			if c {
				Yield(1)
			}
		case 2:
			Yield(5)
		}
		_ = n
	}
	return nil
}

func main() {
	var out []int
	for v := range g() {
		out = append(out, v)
	}
	fmt.Println(out)
}
