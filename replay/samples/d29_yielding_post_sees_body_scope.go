// want: [42 42 42]
package main

import (
	"fmt"

	. "github.com/goghcrow/go-co"
)

// C01: the post statement of a for loop is outside the scope of the loop body; a yielding post that is appended
// to the rewritten body sees the body's declarations instead.
func g() Iter[int] {
	a := 42
	for cnt := 2; cnt > 0; Yield(a) {
		a := 100
		_ = a
		cnt--
	}
	Yield(a)
	return nil
}

func main() {
	var out []int
	for v := range g() {
		out = append(out, v)
	}
	fmt.Println(out)
}
