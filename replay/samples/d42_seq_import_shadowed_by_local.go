// want: [1 2]
package main

import (
	"fmt"

	. "github.com/goghcrow/go-co"
	"github.com/goghcrow/go-co/seq"
)

// C11: the file imports seq itself, and a generator has a parameter called seq: the generated code must not refer to the
// package through the name the user chose.
var _ seq.Iterator[int]

func G(seq []int) Iter[int] {
	for _, x := range seq {
		Yield(x)
	}
	return nil
}

func main() {
	var out []int
	for v := range G([]int{1, 2}) {
		out = append(out, v)
	}
	fmt.Println(out)
}
