// want: REJECT-OR [got 1 between got 2 end deferred 8 deferred 7 done]
package main

import (
	"fmt"

	. "github.com/goghcrow/go-co"
)

// C12: defer is outside the supported subset; inside a range statement that pass 1 leaves native
// (range over a pointer to an array) its body was never walked, so the defer was emitted inside a
// continuation thunk and fired when that thunk returned (before the first value was delivered).
func g(out *[]string) Iter[int] {
	p := &[2]int{7, 8}
	for _, v := range p {
		defer func(v int) { *out = append(*out, fmt.Sprint("deferred ", v)) }(v)
	}
	Yield(1)
	*out = append(*out, "between")
	Yield(2)
	*out = append(*out, "end")
	return nil
}

func main() {
	var out []string
	for v := range g(&out) {
		out = append(out, fmt.Sprint("got ", v))
	}
	out = append(out, "done")
	fmt.Println(out)
}
