// want: [4 6]
package main

import (
	"fmt"

	. "github.com/goghcrow/go-co"
)

type N int

func (n N) Add(m N) N { return n + m }

// C07/C11: `func(x N) N { return x.Add(x) }` must not be reduced to the method value `x.Add` (x is the literal's own parameter)
func g() Iter[int] {
	dbl := func(x N) N { return x.Add(x) }
	Yield(int(dbl(2)))
	Yield(int(dbl(3)))
	return nil
}

func main() {
	var out []int
	for v := range g() {
		out = append(out, v)
	}
	fmt.Println(out)
}
