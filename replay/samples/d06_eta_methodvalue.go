// want: [1 2]
package main

import (
	"fmt"

	. "github.com/goghcrow/go-co"
)

type cnt struct{ n int }

func (c cnt) Get() int { return c.n }

func g() Iter[int] {
	s := cnt{1}
	f := func() int { return s.Get() }
	Yield(f())
	s = cnt{2}
	Yield(f())
	return nil
}

func main() {
	var out []int
	for v := range g() {
		out = append(out, v)
	}
	fmt.Println(out)
}
