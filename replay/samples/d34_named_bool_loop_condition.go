// want: [1 2]
package main

import (
	"fmt"

	. "github.com/goghcrow/go-co"
)

// C11: the condition of a lowered loop may have a named boolean type.
type flag bool

func g() Iter[int] {
	n := 0
	var f flag = true
	for f {
		n++
		Yield(n)
		f = n < 2
	}
	return nil
}

func main() {
	var out []int
	for v := range g() {
		out = append(out, v)
	}
	fmt.Println(out)
}
