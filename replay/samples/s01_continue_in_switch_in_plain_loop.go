// want: [3 7 5]
package main

import (
	"fmt"

	. "github.com/goghcrow/go-co"
)

func g() Iter[int] {
	rows := [][]int{{1, 2}, {3, -9, 4}, {5}}
	for r := 0; r < len(rows); r++ {
		sum := 0
		for i := 0; i < len(rows[r]); i++ {
			switch {
			case rows[r][i] < 0:
				continue
			}
			sum += rows[r][i]
		}
		Yield(sum)
	}
	return nil
}

func main() {
	var out []int
	for v := range g() {
		out = append(out, v)
	}
	fmt.Println(out)
}
