// want: [1 2 3 10 20 7 1 2 3 1] calls=3
package main

import (
	"fmt"

	. "github.com/goghcrow/go-co"
)

// C04/C11: an array operand that is not addressable (a call result, a composite literal) cannot be sliced in place.
var calls int

func arr() [3]int { calls++; return [3]int{1, 2, 3} }

type box struct{ a [1]int }

func mk() box { return box{[1]int{7}} }

func g() Iter[int] {
	for _, v := range arr() {
		Yield(v)
	}
	for _, v := range [2]int{10, 20} {
		Yield(v)
	}
	for _, v := range mk().a {
		Yield(v)
	}
	n := 0
	for range arr() {
		n++
	}
	for i := 0; i < n; i++ {
		Yield(i + 1)
	}
	first := func() (r int) {
	outer:
		for _, v := range arr() {
			for range [2]int{} {
				r = v
				break outer
			}
		}
		return
	}
	Yield(first())
	return nil
}

func main() {
	var out []int
	for v := range g() {
		out = append(out, v)
	}
	fmt.Printf("%v calls=%d\n", out, calls)
}
