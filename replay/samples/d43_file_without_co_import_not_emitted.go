// want: [6]
// C11: Compile writes to another directory; helper.go of the same package does not import co and is not emitted.
package main

import (
	"fmt"

	. "github.com/goghcrow/go-co"
)

func g() Iter[int] {
	Yield(double(3))
	return nil
}

func main() {
	var out []int
	for v := range g() {
		out = append(out, v)
	}
	fmt.Println(out)
}
