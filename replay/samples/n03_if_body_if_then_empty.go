// want: [1 7]
package main

import (
	"fmt"

	. "github.com/goghcrow/go-co"
)

func g() Iter[int] {
	c := true
	if c {
		if c {
			Yield(1)
		}
		;
	}
	Yield(7)
	return nil
}

func main() {
	var out []int
	for v := range g() {
		out = append(out, v)
	}
	fmt.Println(out)
}
