// want: [7!]
package main

import (
	"fmt"

	. "github.com/goghcrow/go-co"
)

// C07/C11: a generic callee with only some of its type arguments given explicitly is not a value.
func conv[R, A any](a A) R {
	var r R
	if s, ok := any(&r).(*string); ok {
		*s = fmt.Sprint(a) + "!"
	}
	return r
}

func g() Iter[string] {
	f := func(x int) string { return conv[string](x) }
	Yield(f(7))
	return nil
}

func main() {
	var out []string
	for v := range g() {
		out = append(out, v)
	}
	fmt.Println(out)
}
