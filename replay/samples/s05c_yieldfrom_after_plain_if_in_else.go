// want: [1 2 3 4 5 6 7] 3
package main

import (
	"fmt"

	. "github.com/goghcrow/go-co"
)

// C05/C01: an else block that starts with a plain if and goes on with delegations keeps all of its statements.
type node struct {
	l, r *node
	v    int
}

var maxDepth int

func walk(n *node, depth int) Iter[int] {
	if n == nil {
		return nil
	} else {
		if depth > maxDepth {
			maxDepth = depth
		}
		YieldFrom(walk(n.l, depth+1))
		Yield(n.v)
		YieldFrom(walk(n.r, depth+1))
	}
	return nil
}

func leaf(v int) *node { return &node{v: v} }

func main() {
	t := &node{&node{leaf(1), leaf(3), 2}, &node{leaf(5), leaf(7), 6}, 4}
	var out []int
	for v := range walk(t, 1) {
		out = append(out, v)
	}
	fmt.Println(out, maxDepth)
}
