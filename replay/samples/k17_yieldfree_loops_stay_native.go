// want: [flat flat flat flat flat flat flat flat flat] [6 12953 8476 10667 3 20001 20001 40002 20001]
package main

import (
	"fmt"
	"runtime"

	. "github.com/goghcrow/go-co"
)

// C17, compile side: a loop of a generator that contains no yield stays a native Go loop, so the
// call-stack depth inside it does not depend on the iteration count (a loop lowered to seq.For
// nests frames per non-yielding iteration).  Depth is sampled at iterations lo and hi.
const (
	lo = 100
	hi = 20000
)

var pcs = make([]uintptr, 1<<20)

type probe struct{ atLo, atHi int }

func (p *probe) at(i int) {
	if i == lo {
		p.atLo = runtime.Callers(0, pcs)
	}
	if i == hi {
		p.atHi = runtime.Callers(0, pcs)
	}
}

func (p *probe) String() string {
	if p.atLo == 0 || p.atHi == 0 {
		return "unsampled"
	}
	if p.atLo == p.atHi {
		return "flat"
	}
	return fmt.Sprintf("grows(%d->%d)", p.atLo, p.atHi)
}

// if as the last statement of an if branch
func nestedIf(p *probe) Iter[int] {
	cnt := 0
	for i := 0; i <= hi; i++ {
		p.at(i)
		if i%3 != 0 {
			if i%5 != 0 {
				cnt++
			}
		}
	}
	Yield(cnt % 7)
	return nil
}

// while form with continue, if/else chains
func whileContinue(p *probe) Iter[int] {
	cnt, i := 0, -1
	for i < hi {
		i++
		p.at(i)
		if i%3 == 0 {
			continue
		} else if i%5 == 0 {
			if i%7 != 0 {
				cnt++
			}
		} else {
			cnt++
		}
	}
	Yield(cnt)
	return nil
}

// endless loop with break, switch as the last statement of a branch
func loopBreakSwitch(p *probe) Iter[int] {
	cnt, i := 0, 0
	for {
		p.at(i)
		if i >= hi {
			break
		}
		i++
		if i%2 == 0 {
			switch {
			case i%3 == 0:
				cnt++
			case i%5 == 0:
				if i%7 == 0 {
					cnt--
				}
			default:
				cnt++
			}
		}
	}
	Yield(cnt)
	return nil
}

// range (lowered to an iterator loop by pass 1) with a nested block and continue
func rangeContinue(p *probe, xs []int) Iter[int] {
	cnt := 0
	for i, x := range xs {
		p.at(i)
		{
			if x%3 != 0 {
				if x%5 != 0 {
					cnt++
				} else {
					continue
				}
			}
		}
	}
	Yield(cnt)
	return nil
}

// a yield-free loop nested in a loop that yields
func innerNative(p *probe) Iter[int] {
	for r := 0; r < 3; r++ {
		n := 0
		for i := 0; i <= hi; i++ {
			if r == 2 {
				p.at(i)
			}
			if i%2 == 0 {
				if i%4 == 0 {
					n++
				}
			}
		}
		Yield(n)
	}
	return nil
}

// a validating loop: no yield, but a generator return inside (never taken here), for and range form
func validateFor(p *probe, xs []int) Iter[int] {
	sum := 0
	for i := 0; i < len(xs); i++ {
		p.at(i)
		if xs[i] < 0 {
			return nil
		}
		sum++
	}
	Yield(sum)
	return nil
}

func validateRange(p *probe, xs []int) Iter[int] {
	sum := 0
	for i, x := range xs {
		p.at(i)
		if x < 0 {
			return nil
		}
		sum++
	}
	Yield(sum)
	return nil
}

// a nested counting loop with its own `:=` initialiser (hoisted into a block by pass 0) and a declaring block in the body
func nestedInit(p *probe) Iter[int] {
	n := 0
	for i := 0; i <= hi; i++ {
		p.at(i)
		for j := 0; j < 2; j++ {
			n++
		}
	}
	Yield(n)
	return nil
}

func declaringBlock(p *probe, xs []int) Iter[int] {
	n := 0
	for i, x := range xs {
		p.at(i)
		{
			t := x - i
			n += t + 1
		}
	}
	Yield(n)
	return nil
}

func drain(it Iter[int]) (last int, n int) {
	for v := range it {
		last = v
		n++
	}
	return
}

func main() {
	xs := make([]int, hi+1)
	for i := range xs {
		xs[i] = i
	}
	ps := []*probe{{}, {}, {}, {}, {}, {}, {}, {}, {}}
	var vals []int
	v, _ := drain(nestedIf(ps[0]))
	vals = append(vals, v)
	v, _ = drain(whileContinue(ps[1]))
	vals = append(vals, v)
	v, _ = drain(loopBreakSwitch(ps[2]))
	vals = append(vals, v)
	v, _ = drain(rangeContinue(ps[3], xs))
	vals = append(vals, v)
	_, n := drain(innerNative(ps[4]))
	vals = append(vals, n)
	v, _ = drain(validateFor(ps[5], xs))
	vals = append(vals, v)
	v, _ = drain(validateRange(ps[6], xs))
	vals = append(vals, v)
	v, _ = drain(nestedInit(ps[7]))
	vals = append(vals, v)
	v, _ = drain(declaringBlock(ps[8], xs))
	vals = append(vals, v)
	fmt.Println(ps, vals)
}
