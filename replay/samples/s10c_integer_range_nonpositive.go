// want: [3: 0 1 2 | 1: 0 | 0:  | -1:  | -5: ] [3 1 0 0 0]

//go:build go1.22

package main

import (
	"fmt"
	"strings"

	. "github.com/goghcrow/go-co"
)

// C10/C04: range over an integer inside a generator: 0..n-1, nothing for n <= 0 (no panic), n evaluated once.
func keys(n int) Iter[int] {
	for i := range n {
		Yield(i)
	}
	return nil
}

func count(n int) Iter[int] {
	c := 0
	for range n {
		n-- // the range expression is evaluated once
		c++
	}
	Yield(c)
	return nil
}

func main() {
	var parts []string
	var counts []int
	for _, n := range []int{3, 1, 0, -1, -5} {
		var ks []string
		for k := range keys(n) {
			ks = append(ks, fmt.Sprint(k))
		}
		parts = append(parts, fmt.Sprintf("%d: %s", n, strings.Join(ks, " ")))
		for c := range count(n) {
			counts = append(counts, c)
		}
	}
	fmt.Printf("[%s] %v\n", strings.Join(parts, " | "), counts)
}
