// want: [0 1]
package main

import (
	"fmt"

	. "github.com/goghcrow/go-co"
)

// C06/C11: an embedded iterator field keeps its implicit name.
type holder struct{ Iter[int] }

func gen(n int) Iter[int] {
	for i := 0; i < n; i++ {
		Yield(i)
	}
	return nil
}

func main() {
	h := holder{Iter: gen(2)}
	var out []int
	for v := range h.Iter {
		out = append(out, v)
	}
	fmt.Println(out)
}
