// want: [1 2 3]
package main

import (
	"fmt"

	. "github.com/goghcrow/go-co"
)

var level = 0

func bump() int { level++; return level }

func g() Iter[int] {
	for i := 0; i < 3; i++ {
		bump()
		Yield(level)
	}
	return nil
}

func main() {
	var out []int
	for v := range g() {
		out = append(out, v)
	}
	fmt.Println(out)
}
