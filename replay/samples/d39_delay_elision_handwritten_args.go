// want: [built start mk1 mk2 1 2]
package main

import (
	"fmt"

	. "github.com/goghcrow/go-co"
	"github.com/goghcrow/go-co/seq"
)

// C13/C07: hand-written combinator code in a processed file; the arguments of Combine are evaluated when the Delay thunk runs
// (at the first MoveNext), not when the iterator is built.
var log []string

func mk(n int) seq.Seq[int] {
	log = append(log, fmt.Sprint("mk", n))
	return seq.Bind(n, seq.Normal[int])
}

func hand() seq.Iterator[int] {
	return seq.Start(seq.Delay(func() seq.Seq[int] {
		return seq.Combine(mk(1), mk(2))
	}))
}

func g() Iter[int] {
	Yield(0)
	return nil
}

func main() {
	for range []int{0} {
	}
	it := hand()
	log = append(log, "built")
	log = append(log, "start")
	for it.MoveNext() {
		log = append(log, fmt.Sprint(it.Current()))
	}
	_ = g
	fmt.Println(log)
}
