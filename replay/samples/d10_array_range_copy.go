// want: [1 2 3]
package main

import (
	"fmt"

	. "github.com/goghcrow/go-co"
)

// Go ranges over a copy of an array value when the value variable is used:
// the write to arr[2] in the first iteration is not seen by the loop.
func g() Iter[int] {
	arr := [3]int{1, 2, 3}
	for i, v := range arr {
		if i == 0 {
			arr[2] = 99
		}
		Yield(v)
	}
	return nil
}

func main() {
	var out []int
	for v := range g() {
		out = append(out, v)
	}
	fmt.Println(out)
}
