// want: REJECT-OR [1 2 3]
package main

import (
	"fmt"

	. "github.com/goghcrow/go-co"
)

func g() Iter[int] {
	c := true
	Yield(1)
	if Yield(2); c {
		Yield(3)
	}
	return nil
}

func main() {
	var out []int
	for v := range g() {
		out = append(out, v)
	}
	fmt.Println(out)
}
