// want: [3]
package main

import (
	"fmt"

	. "github.com/goghcrow/go-co"
)

func g() Iter[int] {
	f := func(s string) int { return len(s) }
	Yield(f("abc"))
	return nil
}

func main() {
	var out []int
	for v := range g() {
		out = append(out, v)
	}
	fmt.Println(out)
}
