// want: [1 10 1 20 2]
package main

import (
	"fmt"

	. "github.com/goghcrow/go-co"
)

// C12: a yield that sits only in an else-if arm (the first arm is native) must not be emitted as native code.
func g(n int) Iter[int] {
	if n == 0 {
		n++
	} else if n == 1 {
		Yield(10)
	} else {
		Yield(20)
	}
	Yield(n)
	return nil
}

func main() {
	var out []int
	for _, n := range []int{0, 1, 2} {
		for v := range g(n) {
			out = append(out, v)
		}
	}
	fmt.Println(out)
}
