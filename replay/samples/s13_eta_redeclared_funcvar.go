// want: [6 20]
package main

import (
	"fmt"

	. "github.com/goghcrow/go-co"
)

func inc(x int) int { return x + 1 }
func dbl(x int) int { return x * 2 }
func pick() (func(int) int, bool) { return dbl, true }

func g() Iter[int] {
	step := inc
	run := func(x int) int { return step(x) }
	Yield(run(5))
	var ok bool
	step, ok = pick()
	_ = ok
	Yield(run(10))
	return nil
}

func main() {
	var out []int
	for v := range g() {
		out = append(out, v)
	}
	fmt.Println(out)
}
