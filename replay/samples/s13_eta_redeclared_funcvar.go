// want: [620]
package main

import (
	"fmt"

	. "github.com/goghcrow/go-co"
)

func inc(x int) int { return x + 1 }
func dbl(x int) int { return x * 2 }
func pick() (func(int) int, bool) { return dbl, true }

func redeclared() int {
	step := inc
	run := func(x int) int { return step(x) }
	a := run(5)
	step, ok := pick()
	_ = ok
	return a*100 + run(10)
}

func g() Iter[int] {
	Yield(redeclared())
	return nil
}

func main() {
	var out []int
	for v := range g() {
		out = append(out, v)
	}
	fmt.Println(out)
}
