// want: [0 1 14]
package main

import (
	"fmt"

	. "github.com/goghcrow/go-co"
)

func g() Iter[int] {
	n := 0
	for i := 0; i < 2; i++ {
		Yield(i)
		for {
			n += 7
			break
		}
	}
	Yield(n)
	return nil
}

func main() {
	var out []int
	for v := range g() {
		out = append(out, v)
	}
	fmt.Println(out)
}
