// want: [byIndex 1 2 panic:index byField 1 2 panic:nil byDiv 1 panic:div outer 7 1 2 panic:index]
package main

import (
	"fmt"
	"strings"

	. "github.com/goghcrow/go-co"
)

// C18: the result expression of a generator's `return e` is evaluated where the return is, so a
// panic it raises (no call needed: index, nil field, division) leaves the advance that runs it.
type holder struct{ it Iter[int] }

func byIndex(its []Iter[int], i int) Iter[int] {
	Yield(1)
	Yield(2)
	return its[i]
}

func byField(h *holder) Iter[int] {
	Yield(1)
	Yield(2)
	return h.it
}

func byDiv(tbl []Iter[int], d int) Iter[int] {
	Yield(1)
	return tbl[3/d]
}

func outer() Iter[int] {
	Yield(7)
	YieldFrom(byIndex(nil, 3))
	Yield(99)
	return nil
}

func drive(name string, it Iter[int], out *[]string) {
	*out = append(*out, name)
	defer func() {
		if r := recover(); r != nil {
			s := fmt.Sprint(r)
			switch {
			case strings.Contains(s, "index out of range"):
				*out = append(*out, "panic:index")
			case strings.Contains(s, "nil pointer"):
				*out = append(*out, "panic:nil")
			case strings.Contains(s, "divide by zero"):
				*out = append(*out, "panic:div")
			default:
				*out = append(*out, "panic:other")
			}
		}
	}()
	for v := range it {
		*out = append(*out, fmt.Sprint(v))
	}
	*out = append(*out, "done")
}

func main() {
	var out []string
	drive("byIndex", byIndex(nil, 3), &out)
	drive("byField", byField(nil), &out)
	drive("byDiv", byDiv(nil, 0), &out)
	drive("outer", outer(), &out)
	fmt.Println(out)
}
