// want: REJECT-OR [0 1 100]
package main

import (
	"fmt"

	. "github.com/goghcrow/go-co"
)

// C12: labels are outside the supported subset; `break L` out of a switch nested in the loop labelled L leaves the
// loop - dropping the label would leave only the switch.
func g() Iter[int] {
L:
	for i := 0; i < 5; i++ {
		switch {
		case i == 2:
			break L
		}
		Yield(i)
	}
	Yield(100)
	return nil
}

func main() {
	var out []int
	for v := range g() {
		out = append(out, v)
	}
	fmt.Println(out)
}
