// want: [-1 1]
package main

import (
	"fmt"

	. "github.com/goghcrow/go-co"
)

func sub(a, b int) int { return a - b }

func g() Iter[int] {
	rsub := func(acc, x int) int { return sub(x, acc) }
	Yield(sub(1, 2))
	Yield(rsub(1, 2))
	return nil
}

func main() {
	var out []int
	for v := range g() {
		out = append(out, v)
	}
	fmt.Println(out)
}
