// want: [3]
package main

import (
	"fmt"

	. "github.com/goghcrow/go-co"
)

func id[T any](x T) T { return x }

func g() Iter[int] {
	f := func(x int) int { return id(x) }
	Yield(f(3))
	return nil
}

func main() {
	var out []int
	for v := range g() {
		out = append(out, v)
	}
	fmt.Println(out)
}
