// want: [9 func(main.Sq) int]
// mode: gogen
//go:build co

package main

import (
	"fmt"

	. "github.com/goghcrow/go-co"
)

// C07/C11: in go:generate mode Shape and Sq are unresolved when the optimiser reloads the generated file; func(Sq) int and
// func(Shape) int are then both func(invalid type) int, and the literal must not be replaced by area.
func area(s Shape) int { return s.Area() }

func g() Iter[string] {
	var f func(Sq) int = func(s Sq) int { return area(s) }
	Yield(fmt.Sprint(f(Sq{3})))
	h := func(s Sq) int { return area(s) }
	Yield(fmt.Sprintf("%T", h))
	return nil
}

func main() {
	var out []string
	for v := range g() {
		out = append(out, v)
	}
	fmt.Println(out)
}
