// want: [7] "hello" "hello" "hello"
package main

import (
	_ "embed"
	"fmt"

	. "github.com/goghcrow/go-co"
)

// C13: the doc comments of bystander declarations carry directives; a //go:embed that is lost leaves the variable empty.
//
//go:embed d27_hello.txt
var data string

// a group that has its own doc comment, with directives as doc comments of its specs
var (
	//go:embed d27_hello.txt
	grouped string

	// plain doc
	//go:embed d27_hello.txt
	grouped2 string
)

func g() Iter[int] {
	lit := func() Iter[int] {
		Yield(7)
		return nil
	}
	YieldFrom(lit())
	return nil
}

func main() {
	var out []int
	for v := range g() {
		out = append(out, v)
	}
	fmt.Printf("%v %q %q %q\n", out, data, grouped, grouped2)
}
