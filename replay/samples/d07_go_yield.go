// want: REJECT-OR [1 4 2]
package main

import (
	"fmt"

	. "github.com/goghcrow/go-co"
)

func g() Iter[int] {
	Yield(1)
	go Yield(4)
	Yield(2)
	return nil
}

func main() {
	var out []int
	for v := range g() {
		out = append(out, v)
	}
	fmt.Println(out)
}
