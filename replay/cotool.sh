#!/bin/bash
# replay/cotool.sh <repo-dir> <sample.go> [more sample files...]
# Compiles a sample generator program with the real compiler of <repo-dir> (in a plain main
# binary, because the compiler behaves differently under `go test`) inside a scratch copy of
# the repository, builds and runs the generated code, and prints its output.
# Prints one of:  COMPILER-PANIC: ...   BUILD-FAIL: ...   RUN-FAIL: ...   or the program's output.
export GOFLAGS=-mod=mod GOPROXY=off GOSUMDB=off GOTOOLCHAIN=local
repo=$(realpath "$1"); shift
# a fixed scratch path per parallel slot: the Go build cache is keyed by directory, random scratch names would grow it without bound
d=""
for i in $(seq 0 63); do
  exec 9>"/tmp/cotool-slot-$i.lock"
  if flock -n 9; then d=/tmp/cotool-slot-$i; break; fi
done
[ -n "$d" ] || { d=$(mktemp -d /tmp/cotoolXXXXXX); }
rm -rf "$d"; mkdir -p "$d"; trap 'rm -rf "$d"' EXIT
rsync -a --exclude .git --exclude example --exclude 'rewriter/test' "$repo/" "$d/"
mkdir -p "$d/zzs/src" "$d/zzs/tool"
# a sample whose second line is `// mode: gogen` is compiled in go:generate mode (rewriter.GoGen): it is stored as s<i>_co.go (it carries the
# co build tag itself), its companion *.go.txt files are hand-written files of the package the generator leaves alone, the output is
# generated next to them
mode=compile; sed -n 2p "$1" | grep -q '^// mode: gogen' && mode=gogen
i=0
for f in "$@"; do i=$((i+1)); if [ $mode = gogen ]; then cp "$f" "$d/zzs/src/s${i}_co.go"; else cp "$f" "$d/zzs/src/s$i.go"; fi; [ -d "${f%.go}.files" ] && cp "${f%.go}.files"/* "$d/zzs/src/"; done
for g in "$d"/zzs/src/*.go.txt; do [ -e "$g" ] && mv "$g" "${g%.txt}"; done   # further Go files of a sample are stored as *.go.txt
# a companion named <pkg>__<file>.go.txt belongs to another package, importable as github.com/goghcrow/go-co/zzs/<pkg>
for g in "$d"/zzs/src/*__*.go; do [ -e "$g" ] || continue; b=$(basename "$g"); sub=${b%%__*}; mkdir -p "$d/zzs/$sub"; mv "$g" "$d/zzs/$sub/${b#*__}"; done
cat > "$d/zzs/tool/main.go" <<'GO'
package main

import (
	"fmt"
	"os"

	"github.com/goghcrow/go-co/rewriter"
)

func main() {
	defer func() {
		if r := recover(); r != nil {
			fmt.Printf("COMPILER-PANIC: %v\n", r)
			os.Exit(3)
		}
	}()
	if len(os.Args) > 3 && os.Args[3] == "gogen" {
		rewriter.GoGen(os.Args[1])
		return
	}
	rewriter.Compile(os.Args[1], os.Args[2])
}
GO
cd "$d"
out=$(go run ./zzs/tool "$d/zzs/src" "$d/zzs/out" $mode 2>"$d/compile.err"); st=$?
if [ $st -ne 0 ]; then
  if echo "$out" | grep -q COMPILER-PANIC; then echo "$out" | grep COMPILER-PANIC | cut -c1-400; else echo "COMPILER-PANIC: $(tail -5 "$d/compile.err" | tr '\n' ' ' | cut -c1-400)"; fi
  exit 3
fi
if [ $mode = gogen ]; then rm -rf "$d/zzs/out"; mv "$d/zzs/src" "$d/zzs/out"; fi   # generated in place: the package is the source directory
# companion files of a sample (<sample>.files/*: e.g. a file named by //go:embed) belong next to the generated code too:
# the compiler writes Go files only, as it does when it generates in place
for f in "$@"; do [ -d "${f%.go}.files" ] && for c in "${f%.go}.files"/*; do case "$c" in *.go.txt) ;; *) cp "$c" "$d/zzs/out/";; esac; done; done
if [ -n "$COTOOL_SHOW" ]; then cat "$d"/zzs/out/*.go; fi
if ! go build -o "$d/zzs/prog" ./zzs/out 2>"$d/build.err"; then echo "BUILD-FAIL: $(head -5 "$d/build.err" | tr '\n' ' ' | sed "s|$d/||g" | cut -c1-500)"; exit 4; fi
timeout 20 "$d/zzs/prog" 2>"$d/run.err"; st=$?
if [ $st -ne 0 ]; then echo "RUN-FAIL($st): $(tail -3 "$d/run.err" | tr '\n' ' ' | cut -c1-300)"; exit 5; fi
