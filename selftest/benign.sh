#!/bin/bash
# selftest/benign.sh [patch...] — behaviour-preserving refactorings (produced by sub-agents that saw only the code): every check must
# stay quiet on them.  Applies each patch to a scratch copy of /repo and runs `govc check ALL` there (every unit, scan, lemma and
# always-bounded check of every property once: an obligation's outcome does not depend on the property it is counted under);
# BENIGN_PER_PROPERTY=1 runs the 16 quick checks one by one instead.  Prints QUIET or ALARM.
export GOFLAGS=-mod=mod GOPROXY=off GOSUMDB=off GOTOOLCHAIN=local
cd /verif
files=("$@"); [ ${#files[@]} -eq 0 ] && files=(selftest/benign/*.diff)
rc=0
for f in "${files[@]}"; do
  d=$(mktemp -d /tmp/govc-benXXXXXX); o=$(mktemp -d /tmp/govc-boutXXXXXX)
  rsync -a --exclude .git /repo/ "$d/"
  if ! (cd "$d" && patch -p1 -s < "/verif/$f"); then echo "STALE  $f (does not apply)"; rm -rf "$d" "$o"; continue; fi
  bad=""
  plist="ALL"; [ -n "$BENIGN_PER_PROPERTY" ] && plist="C01 C02 C04 C05 C06 C07 C08 C09 C10 C11 C12 C13 C14 C15 C17 C18"
  for p in $plist; do
    out=$(/verif/bin/govc check "$p" -repo "$d" -out "$o" 2>&1); st=$?
    v=$(echo "$out" | grep -c '^VIOLATION'); u=$(echo "$out" | grep -c '^UNDECIDED')
    if [ $st -ne 0 ] || [ $v -ne 0 ]; then bad="$bad $p(exit=$st,violations=$v)"; echo "$out" | grep -E '^VIOLATION|^UNDECIDED' | sed "s|$d|<scratch>|g; s|$o|<out>|g" | cut -c1-260 | sed 's/^/        /' | head -6
    elif [ $u -ne 0 ]; then echo "        note: $p undecided=$u (no alarm)"; echo "$out" | grep '^UNDECIDED' | head -2 | cut -c1-220 | sed 's/^/          /'; fi
  done
  if [ -n "$bad" ]; then echo "ALARM  $f:$bad"; rc=1; else echo "QUIET  $f"; fi
  rm -rf "$d" "$o"
done
exit $rc
