#!/bin/bash
# selftest/all.sh — the must-fail corpus: every seeded change and every mutant must be reported as a VIOLATION by
# the check of the property it breaks (a mutant that passes means the checker has lost its teeth).
cd /verif
declare -A map=(
 [seeded/C01-1/patch.diff]="C01" [seeded/C02-1/patch.diff]="C02" [seeded/C04-1/patch.diff]="C04" [seeded/C05-1/patch.diff]="C05"
 [seeded/C06-1/patch.diff]="C06" [seeded/C07-1/patch.diff]="C07" [seeded/C08-1/patch.diff]="C08" [seeded/C09-1/patch.diff]="C09"
 [seeded/C10-1/patch.diff]="C10" [seeded/C11-1/patch.diff]="C11" [seeded/C12-1/patch.diff]="C12" [seeded/C13-1/patch.diff]="C13"
 [seeded/C14-1/patch.diff]="C14" [seeded/C15-1/patch.diff]="C15" [seeded/C17-1/patch.diff]="C17" [seeded/C18-1/patch.diff]="C18"
)
for f in selftest/mutants/*.diff; do p=$(basename $f | cut -d_ -f1); map[$f]="$p"; done
fail=0
for f in $(echo "${!map[@]}" | tr ' ' '\n' | sort); do
  out=$(selftest/run.sh "$f" ${map[$f]} 2>&1)
  if echo "$out" | grep -q "^CAUGHT"; then echo "CAUGHT  ${map[$f]}  $f  ($(echo "$out" | grep -c '^VIOLATION') obligations$(echo "$out" | grep -q 'no-failing-input-found' && echo ', some without concrete input'))"; else echo "MISSED  ${map[$f]}  $f"; echo "$out" | tail -3 | sed 's/^/        /'; fail=1; fi
done
exit $fail
