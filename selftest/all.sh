#!/bin/bash
# selftest/all.sh — the must-fail corpus: every seeded change (seeded/<id>-<n>/patch.diff) and every mutant
# (selftest/mutants/<id>_*.diff) must be reported as a VIOLATION by the check of the property it breaks
# (a mutant that passes means the checker has lost its teeth).  Runs on scratch copies; /repo is not touched.
cd /verif
declare -A map=()
for f in seeded/*/patch.diff; do p=$(basename $(dirname $f) | cut -d- -f1); map[$f]="$p"; done
for f in selftest/mutants/*.diff; do p=$(basename $f | cut -d_ -f1); map[$f]="$p"; done
fail=0
for f in $(echo "${!map[@]}" | tr ' ' '\n' | sort); do
  out=$(selftest/run.sh "$f" ${map[$f]} 2>&1)
  if echo "$out" | grep -q "^CAUGHT"; then echo "CAUGHT  ${map[$f]}  $f  ($(echo "$out" | grep -c '^VIOLATION') obligations$(echo "$out" | grep -q 'no-failing-input-found' && echo ', some without concrete input'))"; echo "$out" | grep '^VIOLATION' | sed -E 's/.*obligation=([^ ]+).*/        \1/' | sort -u | head -6; else echo "MISSED  ${map[$f]}  $f"; echo "$out" | tail -3 | sed 's/^/        /'; fail=1; fi
done
exit $fail
