#!/bin/bash
# selftest/run.sh <patch> <property>...   — apply a mutant to a scratch copy of /repo and run the checks on it.
# Prints the check output; exit status 0 if every listed property reported a VIOLATION (mutant caught).
export GOFLAGS=-mod=mod GOPROXY=off GOSUMDB=off GOTOOLCHAIN=local
patch=$(realpath "$1"); shift
d=$(mktemp -d /tmp/govc-mutXXXXXX); o=$(mktemp -d /tmp/govc-outXXXXXX)
trap 'rm -rf "$d" "$o"' EXIT
rsync -a --exclude .git /repo/ "$d/"
(cd "$d" && patch -p1 -s < "$patch") || { echo "PATCH-FAILED $patch"; exit 3; }
rc=0
for p in "$@"; do
  out=$(/verif/bin/govc check "$p" -repo "$d" -out "$o" 2>&1); st=$?
  echo "$out" | sed "s|$d|<scratch>|g; s|$o|<out>|g" | cut -c1-400
  if [ $st -ne 1 ] || ! echo "$out" | grep -q "^VIOLATION property=$p "; then echo "MISSED: $p did not report a violation for $(basename $patch) (exit $st)"; rc=1; else echo "CAUGHT: $p $(basename $patch)"; fi
done
exit $rc
