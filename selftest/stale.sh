#!/bin/bash
# selftest/stale.sh — after a fix: commit in /repo: which stored patches (seeds, mutants, benign edits) no longer apply or no longer build?
# One scratch git copy of /repo outside /repo and /verif, removed afterwards.
export GOFLAGS=-mod=mod GOPROXY=off GOSUMDB=off GOTOOLCHAIN=local
d=$(mktemp -d /tmp/govc-staleXXXXXX); trap 'rm -rf "$d"' EXIT
rsync -a --exclude .git /repo/ "$d/"; cd "$d"; git init -q .; git add -A >/dev/null; git -c user.email=a@b -c user.name=x commit -qm base
n=0; bad=0
for f in /verif/seeded/*/patch.diff /verif/selftest/mutants/*.diff /verif/selftest/benign/*.diff; do
  n=$((n+1))
  if ! patch -p1 -s < "$f" >/dev/null 2>&1; then echo "STALE (does not apply) $f"; bad=$((bad+1))
  elif ! go build ./... >/dev/null 2>&1; then echo "STALE (does not build) $f"; bad=$((bad+1)); fi
  git checkout -q -- . ; git clean -qfd
done
echo "$n patches, $bad stale"
