package main

// Go types -> SMT sorts, zero values, interface tags, declarations.

import (
	"fmt"
	"go/types"
	"sort"
	"strings"
)

const basePrelude = `
(set-option :produce-models true)
(set-logic ALL)
(declare-sort Ref 0) (declare-sort Fun 0) (declare-sort StrId 0) (declare-sort World 0) (declare-sort Unit 0)
(declare-const nilRef Ref) (declare-const nilF Fun) (declare-const unit Unit)
(declare-datatypes ((Iface 0)) (((mkIface (itag Int) (iref Ref)))))
(declare-datatypes ((Slice 0)) (((mkSlice (s_base Ref) (s_off Int) (s_len Int) (s_cap Int)))))
(declare-datatypes ((Str 0)) (((mkStr (sbase StrId) (soff Int) (slen Int)))))
(declare-fun alloc (Ref) Int)
(declare-fun streq (Str Str) Bool)
(declare-const emptyStrId StrId)
(define-fun emptyStr () Str (mkStr emptyStrId 0 0))
(define-fun nilIface () Iface (mkIface 0 nilRef))
(define-fun nilSlice () Slice (mkSlice nilRef 0 0 0))
(define-fun MaxInt () Int 9223372036854775807)
(define-fun MinInt () Int (- 9223372036854775808))
(assert (= (alloc nilRef) (- 1)))
`

// Decls collects declarations made while a unit is executed.
type Decls struct {
	lines    []string
	sorts    map[string]bool
	consts   map[string]bool
	tagOf    map[string]int // type string -> tag
	tagNames []string
	counter  int
	prelude  string
	sigs     map[string]FunSig
	psorts   map[string]bool
	strLits  map[string]string
}

func newDecls(prelude string, sigs map[string]FunSig, psorts map[string]bool) *Decls {
	return &Decls{sorts: map[string]bool{}, consts: map[string]bool{}, tagOf: map[string]int{},
		prelude: prelude, sigs: sigs, psorts: psorts, strLits: map[string]string{}}
}

func (d *Decls) add(line string) { d.lines = append(d.lines, line) }

func (d *Decls) fresh(prefix, sortName string) string {
	d.counter++
	n := fmt.Sprintf("%s!%d", sanitizeSym(prefix), d.counter)
	d.add(fmt.Sprintf("(declare-const %s %s)", n, sortName))
	return n
}

func (d *Decls) constant(name, sortName string) string {
	if !d.consts[name] {
		if _, ok := d.sigs[name]; !ok {
			d.add(fmt.Sprintf("(declare-const %s %s)", name, sortName))
		}
		d.consts[name] = true
	}
	return name
}

func (d *Decls) fun(name string, args []string, ret string) string {
	if !d.consts[name] {
		if _, ok := d.sigs[name]; !ok {
			d.add(fmt.Sprintf("(declare-fun %s (%s) %s)", name, strings.Join(args, " "), ret))
			d.sigs[name] = FunSig{args, ret}
		}
		d.consts[name] = true
	}
	return name
}

func (d *Decls) declSort(name string) {
	if d.sorts[name] || d.psorts[name] {
		return
	}
	d.sorts[name] = true
	d.add(fmt.Sprintf("(declare-sort %s 0)", name))
}

func sanitizeSym(s string) string {
	var b strings.Builder
	for _, c := range s {
		if c >= 'a' && c <= 'z' || c >= 'A' && c <= 'Z' || c >= '0' && c <= '9' || c == '_' || c == '.' {
			b.WriteRune(c)
		} else {
			b.WriteByte('_')
		}
	}
	return b.String()
}

// tag returns the interface tag of a dynamic type.
func (d *Decls) tag(t types.Type) int {
	k := types.TypeString(t, nil)
	if v, ok := d.tagOf[k]; ok {
		return v
	}
	v := len(d.tagOf) + 1
	d.tagOf[k] = v
	d.tagNames = append(d.tagNames, k)
	return v
}

func isExternalStruct(n *types.Named) bool {
	if n.Obj().Pkg() == nil {
		return false
	}
	p := n.Obj().Pkg().Path()
	return !strings.HasPrefix(p, "github.com/goghcrow/go-co") && p != "go/ast"
}

// sortOf maps a Go type to an SMT sort, declaring what is needed.
func (d *Decls) sortOf(t types.Type) string {
	switch x := t.(type) {
	case *types.Basic:
		switch {
		case x.Info()&types.IsBoolean != 0:
			return "Bool"
		case x.Info()&types.IsInteger != 0:
			return "Int"
		case x.Info()&types.IsString != 0:
			return "Str"
		case x.Kind() == types.UntypedNil:
			return "Nil"
		case x.Kind() == types.UnsafePointer:
			return "Ref"
		}
		d.declSort("Opaque_" + sanitizeSym(x.Name()))
		return "Opaque_" + sanitizeSym(x.Name())
	case *types.TypeParam:
		n := "TP_" + x.Obj().Name()
		d.declSort(n)
		d.constant("zero_"+n, n)
		return n
	case *types.Pointer:
		return "Ref"
	case *types.Signature:
		return "Fun"
	case *types.Slice:
		return "Slice"
	case *types.Map, *types.Chan:
		return "Ref"
	case *types.Interface:
		return "Iface"
	case *types.Alias:
		return d.sortOf(types.Unalias(x))
	case *types.Named:
		switch u := x.Underlying().(type) {
		case *types.Struct:
			return d.structSort(x, u)
		default:
			return d.sortOf(u)
		}
	case *types.Struct:
		return d.structSort(nil, x)
	case *types.Tuple:
		return "Tuple"
	case *types.Array:
		d.declSort("OpaqueArray")
		return "OpaqueArray"
	}
	return "Unknown"
}

func (d *Decls) structSort(n *types.Named, st *types.Struct) string {
	if st.NumFields() == 0 {
		return "Unit"
	}
	var name string
	if n != nil {
		name = "S_" + sanitizeSym(n.Obj().Name())
		if ta := n.TypeArgs(); ta != nil {
			for i := 0; i < ta.Len(); i++ {
				name += "_" + sanitizeSym(d.sortOf(ta.At(i)))
			}
		} else if tp := n.TypeParams(); tp != nil {
			for i := 0; i < tp.Len(); i++ {
				name += "_" + sanitizeSym(d.sortOf(tp.At(i)))
			}
		}
		if isExternalStruct(n) {
			name = "Opaque_" + sanitizeSym(n.Obj().Pkg().Name()+"_"+n.Obj().Name())
			d.declSort(name)
			d.constant("zero_"+name, name)
			return name
		}
	} else {
		name = "S_anon_" + sanitizeSym(st.String())
	}
	if d.sorts[name] || d.psorts[name] {
		return name
	}
	d.sorts[name] = true
	var fs []string
	for i := 0; i < st.NumFields(); i++ {
		f := st.Field(i)
		fs = append(fs, fmt.Sprintf("(%s_%s %s)", name, sanitizeSym(f.Name()), d.sortOf(f.Type())))
	}
	d.add(fmt.Sprintf("(declare-datatypes ((%s 0)) (((mk_%s %s))))", name, name, strings.Join(fs, " ")))
	return name
}

// zeroOf returns the zero value of a Go type.
func (d *Decls) zeroOf(t types.Type) Term {
	so := d.sortOf(t)
	z := d.zeroOfSort(so, t)
	z.T = t
	return z
}

func (d *Decls) zeroOfSort(so string, t types.Type) Term {
	switch so {
	case "Bool":
		return Term{S: "false", Sort: so}
	case "Int":
		return Term{S: "0", Sort: so}
	case "Str":
		return Term{S: "emptyStr", Sort: so}
	case "Ref":
		return Term{S: "nilRef", Sort: so}
	case "Fun":
		return Term{S: "nilF", Sort: so}
	case "Iface":
		return Term{S: "nilIface", Sort: so}
	case "Slice":
		return Term{S: "nilSlice", Sort: so}
	case "Unit":
		return Term{S: "unit", Sort: so}
	}
	if strings.HasPrefix(so, "S_") && t != nil {
		var st *types.Struct
		if n, ok := types.Unalias(t).(*types.Named); ok {
			st, _ = n.Underlying().(*types.Struct)
		} else {
			st, _ = t.(*types.Struct)
		}
		if st != nil {
			var as []string
			for i := 0; i < st.NumFields(); i++ {
				as = append(as, d.zeroOf(st.Field(i).Type()).S)
			}
			return Term{S: "(mk_" + so + " " + strings.Join(as, " ") + ")", Sort: so}
		}
	}
	d.constant("zero_"+so, so)
	return Term{S: "zero_" + so, Sort: so}
}

func arraySort(val string) string { return "(Array Ref " + val + ")" }

// strLit returns a Str term for a Go string literal.
func (d *Decls) strLit(s string) Term {
	if s == "" {
		return Term{S: "emptyStr", Sort: "Str"}
	}
	id, ok := d.strLits[s]
	if !ok {
		id = fmt.Sprintf("strlit!%d", len(d.strLits))
		d.strLits[s] = id
		d.add(fmt.Sprintf("(declare-const %s StrId)", id))
	}
	return Term{S: fmt.Sprintf("(mkStr %s 0 %d)", id, len(s)), Sort: "Str"}
}

// strLitFacts: distinct literals are distinct strings; equal text is streq.
func (d *Decls) strLitFacts() []string {
	var out []string
	keys := make([]string, 0, len(d.strLits))
	for k := range d.strLits {
		keys = append(keys, k)
	}
	sort.Strings(keys)
	for i, a := range keys {
		ta := fmt.Sprintf("(mkStr %s 0 %d)", d.strLits[a], len(a))
		out = append(out, fmt.Sprintf("(streq %s %s)", ta, ta))
		for _, b := range keys[i+1:] {
			tb := fmt.Sprintf("(mkStr %s 0 %d)", d.strLits[b], len(b))
			out = append(out, fmt.Sprintf("(not (streq %s %s))", ta, tb), fmt.Sprintf("(not (streq %s %s))", tb, ta))
		}
		out = append(out, fmt.Sprintf("(not (streq %s emptyStr))", ta), fmt.Sprintf("(not (streq emptyStr %s))", ta))
	}
	return out
}
