package main

import (
	"encoding/json"
	"flag"
	"fmt"
	"os"
	"path/filepath"
	"sort"
	"strings"
	"sync"
	"time"
)

func osEnviron() []string { return os.Environ() }

type Discharged struct {
	O   *Obligation
	Res SolverResult
	OK  bool   // verdict matches expectation
	Txt string // script (kept for failures)
}

func (en *Engine) discharge(rs []*UnitResult, workdir string, timeoutS int, agree bool) []*Discharged {
	var out []*Discharged
	var mu sync.Mutex
	var wg sync.WaitGroup
	for _, r := range rs {
		for _, o := range r.Obls {
			r, o := r, o
			wg.Add(1)
			go func() {
				defer wg.Done()
				script := r.Script(o)
				res := runSolvers(workdir, o.Name, script, timeoutS, agree && o.Expect == "unsat")
				d := &Discharged{O: o, Res: res, OK: res.Verdict == o.Expect}
				if !d.OK {
					d.Txt = script
				}
				mu.Lock()
				out = append(out, d)
				mu.Unlock()
			}()
		}
	}
	wg.Wait()
	sort.Slice(out, func(i, j int) bool { return out[i].O.Name < out[j].O.Name })
	return out
}

func main() {
	if len(os.Args) < 2 {
		fmt.Fprintln(os.Stderr, "usage: govc units | unit <name>... | check <property> [--tier quick|thorough] | selftest")
		os.Exit(2)
	}
	cmd := os.Args[1]
	fs := flag.NewFlagSet(cmd, flag.ExitOnError)
	repo := fs.String("repo", "/repo", "repository root")
	verif := fs.String("verif", "/verif", "verification root")
	tier := fs.String("tier", "quick", "quick|thorough")
	outDir := fs.String("out", "", "directory for evidence/ and replays/ (default: the verification root)")
	verbose := fs.Bool("v", false, "verbose")
	keep := fs.Bool("keep", false, "keep SMT scripts")
	replayPath := fs.String("replay", "", "replay file")
	var pos []string
	args := os.Args[2:]
	for len(args) > 0 && !strings.HasPrefix(args[0], "-") {
		pos = append(pos, args[0])
		args = args[1:]
	}
	fs.Parse(args)
	pos = append(pos, fs.Args()...)

	t0 := time.Now()
	prog, err := loadProgram(*repo)
	if err != nil {
		fmt.Fprintln(os.Stderr, "load:", err)
		os.Exit(2)
	}
	en := &Engine{repo: *repo, prog: prog, specDir: filepath.Join(*verif, "spec")}
	if err := en.loadPreludes(); err != nil {
		fmt.Fprintln(os.Stderr, "preludes:", err)
		os.Exit(2)
	}
	workdir, _ := os.MkdirTemp("", "govc-")
	// os.Exit skips deferred calls: every exit below goes through leave, which removes the scripts first
	leave := func(code int) {
		if !*keep {
			os.RemoveAll(workdir)
		}
		os.Exit(code)
	}
	switch cmd {
	case "pins":
		// (re)write spec/trusted_pins.json: the bodies the trusted contracts are trusted for
		pins := map[string]string{}
		for n, u := range prog.Units {
			if u.Spec != nil && u.Spec.Flags["trusted"] && u.Body != nil {
				pins[n] = en.bodyPin(u)
			}
		}
		data, _ := json.MarshalIndent(pins, "", " ")
		if err := os.WriteFile(filepath.Join(en.specDir, "trusted_pins.json"), append(data, '\n'), 0o644); err != nil {
			fmt.Println(err)
			leave(2)
		}
		fmt.Printf("%d trusted bodies pinned\n", len(pins))
	case "units":
		var names []string
		for n, u := range prog.Units {
			s := " "
			if u.Spec != nil {
				s = "*"
			}
			ct := ""
			if u.CtxType != nil {
				ct = " : " + u.CtxType.String()
			}
			if u.Natural != "" {
				ct += "  as " + u.Natural
			}
			names = append(names, fmt.Sprintf("%s %s%s", s, n, ct))
		}
		sort.Strings(names)
		fmt.Println(strings.Join(names, "\n"))
		fmt.Printf("loaded in %v; %d contract units\n", time.Since(t0), len(prog.Contracts.Order))
	case "unit":
		code := 0
		for _, name := range pos {
			var us []*UnitInfo
			for n, u := range prog.Units {
				if n == name || (strings.HasSuffix(name, "*") && strings.HasPrefix(n, strings.TrimSuffix(name, "*"))) {
					us = append(us, u)
				}
			}
			sort.Slice(us, func(i, j int) bool { return us[i].Name < us[j].Name })
			if len(us) == 0 {
				fmt.Println("no such unit:", name)
				code = 2
			}
			for _, u := range us {
				if u.Spec == nil && en.execSpecless(u) {
					continue
				}
				r := en.verifyUnit(u)
				fmt.Printf("== %s: %d obligations, %d paths\n", u.Name, len(r.Obls), r.Paths)
				for _, ud := range r.Undecided {
					fmt.Println("   UNDECIDED:", ud)
					code = 2
				}
				ds := en.discharge([]*UnitResult{r}, workdir, 10, false)
				for _, d := range ds {
					mark := "ok  "
					if !d.OK {
						mark = "FAIL"
						if code == 0 {
							code = 1
						}
					}
					if *verbose || !d.OK {
						fmt.Printf("   %s %-60s %s (%s, %d ms) expect %s %s\n", mark, d.O.Name, d.Res.Verdict, d.Res.Solver, d.Res.Ms, d.O.Expect, d.O.Pos)
						if !d.OK && d.O.Expect == "unsat" {
							fn := filepath.Join(workdir, sanitize(d.O.Name)+".smt2")
							fmt.Printf("        script: %s\n        path: %s\n", fn, d.O.Info["path"])
							if a := d.O.Info["approx"]; a != "" {
								fmt.Printf("        approx: %s (a sat here is a failed proof, not a counterexample)\n", a)
							}
							if *verbose {
								fmt.Println(trunc(d.Res.Output, 3000))
							}
						}
					}
				}
				for _, a := range r.Assumed {
					if *verbose {
						fmt.Println("   assumed:", a)
					}
				}
			}
		}
		if *keep {
			fmt.Println("scripts in", workdir)
		}
		leave(code)
	case "replay":
		leave(en.replayFile(*replayPath, *verif))
	case "check":
		if len(pos) != 1 {
			fmt.Fprintln(os.Stderr, "check needs one property id")
			leave(2)
		}
		if *outDir == "" {
			*outDir = *verif
		}
		en.outDir = *outDir
		leave(en.checkProperty(pos[0], *tier, *verif, workdir, t0))
	default:
		fmt.Fprintln(os.Stderr, "unknown command", cmd)
		leave(2)
	}
	leave(0)
}

func (en *Engine) execSpecless(u *UnitInfo) bool {
	x := en.newExec(u)
	return x.effectiveSpec(u) == nil
}
