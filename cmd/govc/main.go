package main

import (
	"fmt"
	"golang.org/x/tools/go/packages"
)

func main() {
	cfg := &packages.Config{Mode: packages.NeedName | packages.NeedSyntax | packages.NeedTypes | packages.NeedTypesInfo | packages.NeedFiles | packages.NeedImports | packages.NeedDeps, Dir: "/repo", BuildFlags: []string{"-tags=verif"}}
	pkgs, err := packages.Load(cfg, "./seq", "./rewriter")
	fmt.Println(len(pkgs), err)
	for _, p := range pkgs { fmt.Println(p.PkgPath, len(p.Syntax), p.Errors) }
}
