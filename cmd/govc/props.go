package main

import "time"

func (en *Engine) checkProperty(id, tier, verif, workdir string, t0 time.Time) int { return 2 }
