package main

// Property checks: which units / lemmas / scans decide which property,
// violation reporting with replay files, known findings, evidence.

import (
	"crypto/sha1"
	"encoding/json"
	"fmt"
	"os"
	"path/filepath"
	"regexp"
	"sort"
	"strings"
	"time"
)

type PropSpec struct {
	ID            string   `json:"id"`
	Units         []string `json:"units"`          // unit names or prefixes ending in *
	Only          []string `json:"only"`           // optional: obligation-name regexps that count for this property (default all)
	Exclude       []string `json:"exclude"`        // obligation-name regexps that belong to another property
	Lemmas        []string `json:"lemmas"`         // spec/lemmas/<name>.smt2
	Scans         []string `json:"scans"`          // named syntactic side-condition checks
	Replay        string   `json:"replay"`         // replay template family
	AlwaysBounded []string `json:"always_bounded"` // replay families run as bounded checks on every tier
	Trusted       []string `json:"trusted"`        // trusted base entries
	Assume        []string `json:"assumptions"`
	MinObls       int      `json:"min_obligations"`
	Bounded       []string `json:"bounded"` // bounded stand-ins (thorough tier)
	DesignRef     string   `json:"design_ref"`
}

type KnownFinding struct {
	Property   string `json:"property"`
	Obligation string `json:"obligation"` // obligation name without ~N suffix
	What       string `json:"what"`
	Status     string `json:"status"` // "known" or "fixed"
	Commit     string `json:"commit,omitempty"`
}

type Failure struct {
	Name    string
	Base    string
	Verdict string
	Solver  string
	Output  string
	Script  string
	Pos     string
	Kind    string
}

var reTilde = regexp.MustCompile(`~\d+$`)

func baseName(n string) string { return reTilde.ReplaceAllString(n, "") }

func loadJSON(path string, v any) error {
	b, err := os.ReadFile(path)
	if err != nil {
		return err
	}
	return json.Unmarshal(b, v)
}

func (en *Engine) matchUnits(pats []string) []*UnitInfo {
	seen := map[string]bool{}
	var out []*UnitInfo
	for _, p := range pats {
		for n, u := range en.prog.Units {
			ok := n == p
			if strings.HasSuffix(p, "*") && strings.HasPrefix(n, strings.TrimSuffix(p, "*")) {
				ok = true
			}
			if ok && !seen[n] {
				seen[n] = true
				out = append(out, u)
			}
		}
	}
	sort.Slice(out, func(i, j int) bool { return out[i].Name < out[j].Name })
	return out
}

func (en *Engine) checkProperty(id, tier, verif, workdir string, t0 time.Time) int {
	var props []PropSpec
	if err := loadJSON(filepath.Join(verif, "propmap.json"), &props); err != nil {
		fmt.Fprintln(os.Stderr, "propmap:", err)
		return 2
	}
	var ps *PropSpec
	for i := range props {
		if props[i].ID == id {
			ps = &props[i]
		}
	}
	if ps == nil && id == "ALL" {
		// selftest only (selftest/benign.sh): every unit, scan, lemma and always-bounded check of every property, once.
		// An obligation's outcome does not depend on the property it is counted under, so a behaviour-preserving edit that is
		// quiet here is quiet under each property.
		all := PropSpec{ID: "ALL", Replay: "rw-samples"}
		seen := map[string]bool{}
		add := func(dst *[]string, xs []string, kind string) {
			for _, x := range xs {
				if !seen[kind+x] {
					seen[kind+x] = true
					*dst = append(*dst, x)
				}
			}
		}
		for i := range props {
			add(&all.Units, props[i].Units, "u")
			add(&all.Scans, props[i].Scans, "s")
			add(&all.Lemmas, props[i].Lemmas, "l")
			add(&all.AlwaysBounded, props[i].AlwaysBounded, "b")
		}
		ps = &all
	}
	if ps == nil {
		fmt.Fprintln(os.Stderr, "no such property in propmap.json:", id)
		return 2
	}
	var known []KnownFinding
	_ = loadJSON(filepath.Join(verif, "known_findings.json"), &known)
	if id == "ALL" {
		for i := range known {
			known[i].Property = "ALL"
		}
	}

	timeout := 10
	agree := false
	if tier == "thorough" {
		timeout = 60
		agree = true
	}
	var onlyRe []*regexp.Regexp
	for _, o := range ps.Only {
		onlyRe = append(onlyRe, regexp.MustCompile(o))
	}
	var exclRe []*regexp.Regexp
	for _, o := range ps.Exclude {
		exclRe = append(exclRe, regexp.MustCompile(o))
	}
	counts := func(name string) bool {
		for _, r := range exclRe {
			if r.MatchString(name) {
				return false
			}
		}
		if len(onlyRe) == 0 {
			return true
		}
		for _, r := range onlyRe {
			if r.MatchString(name) {
				return true
			}
		}
		return false
	}

	// 1. units
	units := en.matchUnits(ps.Units)
	var results []*UnitResult
	var undecided []string
	assumed := map[string]bool{}
	var fnNames []string
	for _, u := range units {
		x := en.newExec(u)
		if x.effectiveSpec(u) == nil {
			undecided = append(undecided, u.Name+": no contract")
			continue
		}
		r := en.verifyUnit(u)
		// keep only the obligations that count for this property
		var keep []*Obligation
		for _, o := range r.Obls {
			if counts(o.Name) {
				keep = append(keep, o)
			}
		}
		r.Obls = keep
		results = append(results, r)
		fnNames = append(fnNames, u.Name)
		for _, ud := range r.Undecided {
			undecided = append(undecided, u.Name+": "+ud)
		}
		for _, a := range r.Assumed {
			assumed[a] = true
		}
	}
	for _, pat := range ps.Units {
		if len(en.matchUnits([]string{pat})) == 0 {
			undecided = append(undecided, "no unit matches "+pat+" (function removed or renamed)")
		}
	}
	ds := en.discharge(results, workdir, timeout, agree)

	// 2. lemmas (pure SMT over the preludes)
	type lemmaRes struct {
		name string
		res  SolverResult
		txt  string
	}
	var lemmas []lemmaRes
	for _, l := range ps.Lemmas {
		b, err := os.ReadFile(filepath.Join(verif, "spec", "lemmas", l+".smt2"))
		if err != nil {
			undecided = append(undecided, "lemma "+l+": "+err.Error())
			continue
		}
		script := basePrelude + en.preludes["machine"] + string(b)
		res := runSolvers(workdir, "lemma."+l, script, timeout, agree)
		lemmas = append(lemmas, lemmaRes{"lemma." + l, res, script})
	}

	// 3. scans
	var scanFails []Failure
	var scanNames []string
	for _, s := range ps.Scans {
		if s == "seq-no-driver-reentry" {
			scanNames = append(scanNames, "scan."+s)
			for _, e := range en.driverReentryEdges("seq") {
				nm := "scan." + s + "[" + e + "]"
				scanNames = append(scanNames, nm)
				scanFails = append(scanFails, Failure{Name: nm, Base: nm, Verdict: "failed", Solver: "syntactic scan", Output: "continuation " + e + ": the driver closure is re-entered synchronously from a continuation it created; Go frames accumulate per iteration until the next yield", Kind: "scan"})
			}
			continue
		}
		ok, detail := en.runScan(s)
		scanNames = append(scanNames, "scan."+s)
		if !ok {
			scanFails = append(scanFails, Failure{Name: "scan." + s, Base: "scan." + s, Verdict: "failed", Solver: "syntactic scan", Output: detail, Kind: "scan"})
		}
	}

	// classify
	var failures []Failure
	nObl, nDis, nCover, nCoverOK, nTwin, nTwinOK := 0, 0, 0, 0, 0, 0
	var solverMs int64
	var samples []map[string]any
	bySolver := map[string]int{}
	twinGroups := map[string][2]int{}
	for _, d := range ds {
		solverMs += d.Res.Ms
		switch d.O.Kind {
		case "cover":
			nCover++
			if d.OK {
				nCoverOK++
			} else if d.Res.Verdict == "unsat" {
				undecided = append(undecided, "VACUOUS: entry assumptions of "+d.O.Unit+" are contradictory")
			}
			continue
		case "twin":
			nTwin++
			g := d.O.Unit + ":" + baseName(strings.TrimPrefix(d.O.Name, d.O.Unit+":"))
			c := twinGroups[g]
			c[0]++
			if d.OK {
				nTwinOK++
				c[1]++
			}
			twinGroups[g] = c
			continue
		}
		nObl++
		if d.OK {
			nDis++
			bySolver[d.Res.Solver]++
			if len(samples) < 12 {
				samples = append(samples, map[string]any{"obligation": d.O.Name, "kind": d.O.Kind, "solver": d.Res.Solver, "ms": d.Res.Ms, "pos": d.O.Pos})
			}
			continue
		}
		if d.Res.Verdict == "sat" && d.O.Kind == "invariant" {
			// a loop invariant is a proof artifact: one that is not established or not preserved any more means the proof of
			// the unit has to be redone, not that a property is violated
			undecided = append(undecided, fmt.Sprintf("%s: loop invariant no longer inductive (proof artifact; not a counterexample)", d.O.Name))
			continue
		}
		if d.Res.Verdict == "sat" && d.O.Info["approx"] != "" {
			// the path crossed an over-approximation (a loop without invariant): the model is not a counterexample of the code
			undecided = append(undecided, fmt.Sprintf("%s: proof failed behind an over-approximation (%s); not a counterexample", d.O.Name, d.O.Info["approx"]))
			continue
		}
		if d.Res.Verdict == "sat" {
			failures = append(failures, Failure{Name: d.O.Name, Base: baseName(d.O.Name), Verdict: "sat", Solver: d.Res.Solver, Output: d.Res.Output, Script: d.Txt, Pos: d.O.Pos, Kind: d.O.Kind})
		} else {
			isKF := false
			for _, k := range known {
				if k.Status == "known" && k.Property == id && k.Obligation == baseName(d.O.Name) {
					isKF = true
				}
			}
			if isKF {
				nObl-- // an undecided instance of an obligation that is a recorded finding anyway
				continue
			}
			undecided = append(undecided, fmt.Sprintf("%s: solver verdict %s %s", d.O.Name, d.Res.Verdict, trunc(d.Res.Output, 300)))
		}
	}
	for g, c := range twinGroups {
		if c[1] == 0 {
			// every path reaching this clause is infeasible: only a vacuity problem if the main obligations passed
			undecided = append(undecided, "VACUOUS: no feasible path reaches "+g)
		}
	}
	for _, l := range lemmas {
		nObl++
		solverMs += l.res.Ms
		switch l.res.Verdict {
		case "unsat":
			nDis++
			bySolver[l.res.Solver]++
			samples = append(samples, map[string]any{"obligation": l.name, "kind": "lemma", "solver": l.res.Solver, "ms": l.res.Ms})
		case "sat":
			failures = append(failures, Failure{Name: l.name, Base: l.name, Verdict: "sat", Solver: l.res.Solver, Output: l.res.Output, Script: l.txt, Kind: "lemma"})
		default:
			undecided = append(undecided, l.name+": solver verdict "+l.res.Verdict)
		}
	}
	for _, s := range scanNames {
		nObl++
		failed := false
		for _, f := range scanFails {
			if f.Name == s {
				failed = true
			}
		}
		if !failed {
			nDis++
			bySolver["syntactic scan"]++
		}
	}
	failures = append(failures, scanFails...)

	// known findings
	exit := 0
	violations := 0
	var kfLines []string
	kfSeen := map[string]bool{}
	var realFailures []Failure
	for _, f := range failures {
		matched := false
		for _, k := range known {
			if k.Status == "known" && k.Property == id && k.Obligation == f.Base {
				matched = true
				if !kfSeen[k.Obligation] {
					kfSeen[k.Obligation] = true
					kfLines = append(kfLines, fmt.Sprintf("KNOWN-FINDING: property=%s %s: %s", id, k.Obligation, k.What))
				}
			}
		}
		if matched {
			nObl-- // reported under known_findings, counted neither as obligation nor as discharged
			continue
		}
		realFailures = append(realFailures, f)
	}
	// a known finding that no longer fails is simply proved; nothing to report
	for _, l := range kfLines {
		fmt.Println(l)
	}
	// violations: group by base obligation name, one replay file each
	grouped := map[string][]Failure{}
	var order []string
	for _, f := range realFailures {
		if _, ok := grouped[f.Base]; !ok {
			order = append(order, f.Base)
		}
		grouped[f.Base] = append(grouped[f.Base], f)
	}
	outcomes := map[string]string{}
	for _, base := range order {
		fs := grouped[base]
		violations++
		exit = 1
		fam := familyFor(base, ps.Replay)
		if _, done := outcomes[fam]; !done {
			outcomes[fam] = en.runReplayFamily(fam, id, verif)
		}
		replayOutcome := outcomes[fam]
		path := en.writeReplay(en.outDir, id, base, fs, fam, replayOutcome)
		suffix := ""
		if !strings.HasPrefix(replayOutcome, "REPRODUCED") {
			suffix = " no-failing-input-found"
		}
		fmt.Printf("VIOLATION property=%s replay=%s obligation=%s%s\n", id, path, base, suffix)
	}
	sort.Strings(undecided)
	// bounded stand-in: units that fell outside the verifier's reach are exercised by the replay
	// harness of their family (a bounded check, never counted as proof); a concrete failing input
	// found that way is a violation.
	var boundedRuns []string
	if violations == 0 && len(undecided) > 0 {
		fams := map[string]bool{}
		for _, u := range undecided {
			unit, _, _ := strings.Cut(u, ": ")
			if strings.HasPrefix(unit, "VACUOUS") || strings.HasPrefix(unit, "lemma") || strings.HasPrefix(unit, "no unit matches") {
				unit = strings.TrimPrefix(u, "no unit matches ")
			}
			fams[familyFor(unit, ps.Replay)] = true
		}
		for _, fam := range sortedKeys(fams) {
			if _, done := outcomes[fam]; !done {
				outcomes[fam] = en.runReplayFamily(fam, id, verif)
			}
			boundedRuns = append(boundedRuns, fam+": "+trunc(outcomes[fam], 300))
			if strings.HasPrefix(outcomes[fam], "REPRODUCED") {
				violations++
				exit = 1
				name := "bounded-stand-in[" + fam + "]"
				path := en.writeReplay(en.outDir, id, name, []Failure{{Name: name, Base: name, Verdict: "failing input found by the bounded replay harness", Solver: "go test", Output: strings.Join(undecided, "\n"), Kind: "bounded"}}, fam, outcomes[fam])
				fmt.Printf("VIOLATION property=%s replay=%s obligation=%s (contract obligations undecided; concrete failing input from the bounded stand-in)\n", id, path, name)
			}
		}
	}
	// bounded checks that run on every tier (propmap "always_bounded"): parts of the property no contract within reach
	// expresses (C15: byte identity across invocations of the whole compiler); labelled bounded, never counted as proof.
	if violations == 0 {
		for _, fam := range ps.AlwaysBounded {
			if _, done := outcomes[fam]; !done {
				outcomes[fam] = en.runReplayFamily(fam, id, verif)
			}
			boundedRuns = append(boundedRuns, "bounded check "+fam+": "+trunc(outcomes[fam], 300))
			if strings.HasPrefix(outcomes[fam], "REPRODUCED") {
				violations++
				exit = 1
				name := "bounded-check[" + fam + "]"
				path := en.writeReplay(en.outDir, id, name, []Failure{{Name: name, Base: name, Verdict: "the bounded harness found a concrete failing input on the real code", Solver: "harness", Output: outcomes[fam], Kind: "bounded"}}, fam, outcomes[fam])
				fmt.Printf("VIOLATION property=%s replay=%s obligation=%s\n", id, path, name)
			}
		}
	}
	if tier == "thorough" && violations == 0 {
		// bounded spec validation (never counted as proof): the replay harnesses of every unit family of this
		// property run against the tree under check; they compare the real code with executable renderings of the
		// specifications (native range, reference interpreter, go/types, expected sample output).
		fams := map[string]bool{}
		if ps.Replay != "" {
			fams[ps.Replay] = true
		}
		for _, n := range fnNames {
			fams[familyFor(n, ps.Replay)] = true
		}
		for _, fam := range sortedKeys(fams) {
			if fam == "" {
				continue
			}
			if _, done := outcomes[fam]; !done {
				outcomes[fam] = en.runReplayFamily(fam, id, verif)
			}
			boundedRuns = append(boundedRuns, "spec validation "+fam+": "+trunc(outcomes[fam], 300))
			if strings.HasPrefix(outcomes[fam], "REPRODUCED") {
				violations++
				exit = 1
				name := "spec-validation[" + fam + "]"
				path := en.writeReplay(en.outDir, id, name, []Failure{{Name: name, Base: name, Verdict: "the real code disagrees with the executable specification on a concrete input", Solver: "go test", Output: outcomes[fam], Kind: "bounded"}}, fam, outcomes[fam])
				fmt.Printf("VIOLATION property=%s replay=%s obligation=%s\n", id, path, name)
			}
		}
	}
	if exit == 0 && len(undecided) > 0 {
		// undecided obligations are not violations; the bounded stand-in explored the affected units and found
		// nothing, so the property held on everything explored. Vacuity problems are errors of the machinery.
		for _, u := range undecided {
			if strings.HasPrefix(u, "VACUOUS") {
				exit = 2
			}
		}
	}
	for _, u := range undecided {
		fmt.Println("UNDECIDED:", u)
	}
	if ps.MinObls > 0 && nObl < ps.MinObls && exit == 0 {
		fmt.Printf("UNDECIDED: only %d obligations generated, the property map expects at least %d\n", nObl, ps.MinObls)
		exit = 2
	}
	if nObl == 0 && exit == 0 {
		fmt.Println("UNDECIDED: no obligations generated")
		exit = 2
	}

	// evidence
	var assumptions []string
	for a := range assumed {
		assumptions = append(assumptions, a)
	}
	assumptions = append(assumptions, ps.Assume...)
	assumptions = append(assumptions,
		"integers are mathematical Int; + and - in package seq carry explicit no-overflow obligations, arithmetic in package rewriter is not checked for overflow",
		"partial correctness: termination is not proved",
		"the VC generator's encoding of Go (evaluation order, field-per-array heap, slices as (base,off,len,cap) over element arrays) and the SMT solvers are trusted")
	sort.Strings(assumptions)
	sort.Strings(fnNames)
	var kfEv []map[string]string
	for _, k := range known {
		if k.Property == id {
			kfEv = append(kfEv, map[string]string{"obligation": k.Obligation, "status": k.Status, "what": k.What, "commit": k.Commit})
		}
	}
	trusted := append([]string{"govc (this VC generator)", "z3 4.8.12 / z3 5.1.0 / cvc5 1.0 (first definite answer wins; thorough tier requires two solvers to agree on unsat)", "spec/*.smt2 preludes (hand-written specification)"}, ps.Trusted...)
	ev := map[string]any{
		"property_id": id,
		"tier":        tier,
		"seed":        seedFromEnv(),
		"level":       "proof",
		"coverage": map[string]any{
			"obligations":              nObl,
			"discharged":               nDis,
			"checker_cmd":              fmt.Sprintf("/verif/bin/govc check %s --tier %s", id, tier),
			"trusted_base":             trusted,
			"functions_under_contract": fnNames,
			"discharged_by":            bySolver,
			"solver_time_s":            float64(solverMs) / 1000.0,
			"vacuity_covers":           map[string]int{"generated": nCover, "satisfiable": nCoverOK},
			"must_fail_twins":          map[string]int{"generated": nTwin, "satisfiable": nTwinOK},
			"lemmas":                   ps.Lemmas,
			"scans":                    ps.Scans,
			"samples":                  samples,
			"undecided":                undecided,
			"known_findings":           kfEv,
			"bounded_checks":           boundedRuns,
		},
		"assumptions": assumptions,
		"wall_s":      time.Since(t0).Seconds(),
		"violations":  violations,
	}
	os.MkdirAll(filepath.Join(en.outDir, "evidence"), 0o755)
	b, _ := json.MarshalIndent(ev, "", " ")
	os.WriteFile(filepath.Join(en.outDir, "evidence", id+".json"), b, 0o644)
	fmt.Printf("%s: %d obligations, %d discharged, %d violations, %d undecided, %d known findings (%.1fs)\n", id, nObl, nDis, violations, len(undecided), len(kfLines), time.Since(t0).Seconds())
	return exit
}

func seedFromEnv() int {
	var s int
	fmt.Sscan(os.Getenv("VERIF_SEED"), &s)
	return s
}

func (en *Engine) writeReplay(verif, id, base string, fs []Failure, family, outcome string) string {
	dir := filepath.Join(verif, "replays", id)
	os.MkdirAll(dir, 0o755)
	h := sha1.Sum([]byte(fs[0].Script + fs[0].Output))
	path := filepath.Join(dir, fmt.Sprintf("%s-%x.json", sanitize(base), h[:4]))
	var items []map[string]any
	for _, f := range fs {
		items = append(items, map[string]any{"obligation": f.Name, "position": f.Pos, "verdict": f.Verdict, "solver": f.Solver, "solver_output": f.Output, "smt_script": f.Script})
	}
	rep := map[string]any{
		"property":          id,
		"failed_obligation": base,
		"instances":         items,
		"replay_family":     family,
		"replay_result":     outcome,
		"replay_cmd":        fmt.Sprintf("/verif/check %s --replay %s", id, path),
	}
	b, _ := json.MarshalIndent(rep, "", " ")
	os.WriteFile(path, b, 0o644)
	return path
}
