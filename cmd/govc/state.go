package main

// Symbolic state: variables, versioned field heap with lazy frame instances,
// allocation clock, ghost world.

import (
	"fmt"
	"go/ast"
	"go/types"
	"sort"
	"strings"
)

type Term struct {
	S    string
	Sort string
	T    types.Type
}

func (t Term) String() string { return t.S }

func mk(sortName, f string, a ...any) Term { return Term{S: fmt.Sprintf(f, a...), Sort: sortName} }
func tBool(s string) Term                  { return Term{S: s, Sort: "Bool"} }
func tInt(s string) Term                   { return Term{S: s, Sort: "Int"} }

func sAnd(xs ...string) string {
	var ys []string
	for _, x := range xs {
		if x == "true" {
			continue
		}
		ys = append(ys, x)
	}
	switch len(ys) {
	case 0:
		return "true"
	case 1:
		return ys[0]
	}
	return "(and " + strings.Join(ys, " ") + ")"
}
func sOr(xs ...string) string {
	switch len(xs) {
	case 0:
		return "false"
	case 1:
		return xs[0]
	}
	return "(or " + strings.Join(xs, " ") + ")"
}
func sNot(x string) string       { return "(not " + x + ")" }
func sImp(a, b string) string    { return "(=> " + a + " " + b + ")" }
func sEq(a, b string) string     { return "(= " + a + " " + b + ")" }
func sIte(c, a, b string) string { return "(ite " + c + " " + a + " " + b + ")" }

// HeapVer is one version of a field array (or element heap).
type HeapVer struct {
	term    string
	sort    string // array sort
	parent  *HeapVer
	havoc   bool
	clk     string   // clock before the havocking call
	except  []string // refs whose entry may have changed (not framed)
	wild    bool     // nothing is framed (unknown effect)
	valSort string
}

type State struct {
	approx   string     // non-empty: this path crossed an over-approximation (a loop without invariant); a sat behind it is not a counterexample
	defers   []deferRec // deferred closure literals of the functions on the (inlining) stack, oldest first
	vars     map[types.Object]Term
	fields   map[string]*HeapVer
	ghost    map[string]Term // "W", model arrays "MF_<name>" (as HeapVer would be overkill)
	models   map[string]*HeapVer
	pc       []string
	clk      string
	seenInst map[string]bool
	dead     bool
	closures map[string]*UnitInfo // Fun term -> closure unit created on this path
	pending  []pendingGhost
	depth    int // inlining depth
	trace    []string
	astEpoch int // bumped when a callee may have rewritten AST fields: fields first touched later are unknown
}

type pendingGhost struct {
	fun    Term
	unit   *UnitInfo
	clause *Clause
}

func (s *State) clone() *State {
	n := &State{
		vars:     make(map[types.Object]Term, len(s.vars)),
		fields:   make(map[string]*HeapVer, len(s.fields)),
		ghost:    make(map[string]Term, len(s.ghost)),
		models:   make(map[string]*HeapVer, len(s.models)),
		pc:       append([]string(nil), s.pc...),
		clk:      s.clk,
		seenInst: make(map[string]bool, len(s.seenInst)),
		closures: make(map[string]*UnitInfo, len(s.closures)),
		pending:  append([]pendingGhost(nil), s.pending...),
		depth:    s.depth,
		trace:    append([]string(nil), s.trace...),
		astEpoch: s.astEpoch,
		defers:   append([]deferRec(nil), s.defers...),
		approx:   s.approx,
	}
	for k, v := range s.vars {
		n.vars[k] = v
	}
	for k, v := range s.fields {
		n.fields[k] = v
	}
	for k, v := range s.ghost {
		n.ghost[k] = v
	}
	for k, v := range s.models {
		n.models[k] = v
	}
	for k, v := range s.seenInst {
		n.seenInst[k] = v
	}
	for k, v := range s.closures {
		n.closures[k] = v
	}
	return n
}

func (s *State) assume(f string) {
	if f == "true" {
		return
	}
	if strings.Contains(f, "!b") && !strings.Contains(f, "((") {
		// a lazily generated instance that mentions a bound variable of a contract quantifier: not expressible outside it
		return
	}
	s.pc = append(s.pc, f)
}

// snapshot returns a shallow copy that shares nothing mutable (used for old()).
func (s *State) snapshot() *State { return s.clone() }

func sortedKeys[V any](m map[string]V) []string {
	ks := make([]string, 0, len(m))
	for k := range m {
		ks = append(ks, k)
	}
	sort.Strings(ks)
	return ks
}

// deferRec: `defer func() { … }()` registered at inlining depth `depth`; run (LIFO) when that function returns.
type deferRec struct {
	depth int
	lit   *ast.FuncLit
}
