package main

// Unit verification: entry state, own contract at exits, seq theory hooks,
// rigid links for read-only AST units.

import (
	"crypto/sha256"
	"encoding/hex"
	"encoding/json"
	"fmt"
	"go/ast"
	"go/types"
	"os"
	"path/filepath"
	"sort"
	"strings"
)

type UnitResult struct {
	Unit      string
	Obls      []*Obligation
	Undecided []string
	Assumed   []string
	Decls     *Decls
	Script    func(o *Obligation) string
	Paths     int
}

type Engine struct {
	repo      string
	outDir    string
	prog      *Program
	specDir   string
	preludes  map[string]string // name -> text
	modelSort map[string]string
	pins      map[string]string // trusted unit -> pinned body hash
}

// bodyPin: a short hash of the unit's body as printed (comments and layout do not count).
func (en *Engine) bodyPin(u *UnitInfo) string {
	if u.Body == nil {
		return "none"
	}
	sum := sha256.Sum256([]byte(exprText(en, u.Body)))
	return hex.EncodeToString(sum[:6])
}

func (en *Engine) trustedPins() map[string]string {
	if en.pins == nil {
		en.pins = map[string]string{}
		if data, err := os.ReadFile(filepath.Join(en.specDir, "trusted_pins.json")); err == nil {
			_ = json.Unmarshal(data, &en.pins)
		}
	}
	return en.pins
}

func (x *Exec) lateKey(v *types.Var) string { return fmt.Sprintf("late:%s@%d", v.Name(), v.Pos()) }

func isRigid(e cx, models map[string]*UnitSpec) bool {
	ok := true
	var walk func(e cx)
	walk = func(e cx) {
		switch y := e.(type) {
		case *cxIdent:
			if y.Name == "W" {
				ok = false
			}
		case *cxSel:
			ok = false
		case *cxIdx:
			ok = false
		case *cxUn:
			walk(y.X)
		case *cxBin:
			walk(y.L)
			walk(y.R)
		case *cxCall:
			if y.Fun == "old" || y.Fun == "fieldmap" || y.Fun == "fresh" || y.Fun == "len" {
				ok = false
			}
			if _, isModel := models[y.Fun]; isModel {
				ok = false
			}
			for _, a := range y.Args {
				walk(a)
			}
		case *cxQuant:
			walk(y.Body)
		case *cxLet:
			walk(y.Val)
			walk(y.Body)
		case *cxIte:
			walk(y.C)
			walk(y.A)
			walk(y.B)
		}
	}
	walk(e)
	return ok
}

// preludeFor chooses the spec preludes a unit needs.
func (en *Engine) preludeFor(u *UnitInfo) string {
	var b strings.Builder
	if u.Pkg.Name == "seq" {
		b.WriteString(en.preludes["machine"])
		b.WriteString(en.preludes["iter"])
	} else {
		b.WriteString(en.preludes["goast"])
	}
	return b.String()
}

func (en *Engine) newExec(u *UnitInfo) *Exec {
	sigs := map[string]FunSig{}
	psorts := map[string]bool{}
	pre := ""
	// fixed tag table for go/ast nodes (sorted, so that preludes can name them)
	x := &Exec{en: en, prog: en.prog, unit: u, info: u.Pkg.TypesInfo, nameCnt: map[string]int{}, hdr: map[string]Term{},
		assumed: map[string]bool{}, revealed: map[string]bool{}, maxPaths: 4000, callOrd: map[string]int{}, loopOrd: map[ast.Stmt]int{},
		modelSort: map[string]string{}, modelType: map[string]types.Type{}, prov: map[string]string{}}
	x.d = newDecls("", sigs, psorts)
	var tagDefs strings.Builder
	if u.Pkg.Name == "rewriter" {
		cands := append([]types.Type(nil), x.candidateDynTypes()...)
		sort.Slice(cands, func(i, j int) bool { return types.TypeString(cands[i], nil) < types.TypeString(cands[j], nil) })
		for _, c := range cands {
			n := c.(*types.Pointer).Elem().(*types.Named).Obj().Name()
			fmt.Fprintf(&tagDefs, "(define-fun K_%s () Int %d)\n", n, x.d.tag(c))
		}
		for _, imp := range u.Pkg.Imports {
			if imp.PkgPath == "go/token" && imp.Types != nil {
				for _, nm := range []string{"BREAK", "CONTINUE", "GOTO", "FALLTHROUGH", "DEFINE", "ASSIGN"} {
					if c, ok := imp.Types.Scope().Lookup(nm).(*types.Const); ok {
						fmt.Fprintf(&tagDefs, "(define-fun T%s () Int %s)\n", nm, c.Val().ExactString())
					}
				}
			}
		}
	}
	pre = basePrelude + tagDefs.String() + en.preludeFor(u)
	if err := preludeSigs(pre, sigs, psorts); err != nil {
		panic(fmt.Sprintf("prelude does not parse: %v", err))
	}
	x.d.prelude = pre
	if u.Pkg.Name == "seq" {
		x.hooks = &seqTheory{}
		x.overflow = true
	}
	// loop ordinals: a loop spec that names its loop (`loop #3 over args …`: the range operand as written) is bound to the loop
	// of that name; the other loops take the remaining ordinals in source order (no names: plain source order)
	natural := func(l ast.Stmt) string {
		if r, ok := l.(*ast.RangeStmt); ok {
			return strings.ReplaceAll(types.ExprString(r.X), " ", "")
		}
		return ""
	}
	ordOf := make([]int, len(u.Loops))
	taken := map[int]bool{}
	for i := range ordOf {
		ordOf[i] = -1
	}
	if u.Spec != nil {
		for k, ls := range u.Spec.Loops {
			if ls.Over == "" {
				continue
			}
			for i, l := range u.Loops {
				if ordOf[i] < 0 && natural(l) == ls.Over && !taken[k] {
					ordOf[i] = k
					taken[k] = true
					break
				}
			}
		}
	}
	next := 0
	for i, l := range u.Loops {
		if ordOf[i] < 0 {
			for taken[next] {
				next++
			}
			ordOf[i] = next
			taken[next] = true
		}
		x.loopOrd[l] = ordOf[i]
	}
	return x
}

// verifyUnit symbolically executes one unit against its contract.
func (en *Engine) verifyUnit(u *UnitInfo) *UnitResult {
	x := en.newExec(u)
	res := &UnitResult{Unit: u.Name, Decls: x.d}
	spec := x.effectiveSpec(u)
	if spec == nil {
		res.Undecided = []string{"unit has no contract"}
		return res
	}
	if spec.Flags["trusted"] {
		// a trusted contract is trusted for the body it was written against: the body is pinned (spec/trusted_pins.json,
		// `govc pins`); a different body makes the unit undecided, which sends the property to its bounded stand-in
		pin := en.bodyPin(u)
		want, pinned := en.trustedPins()[u.Name]
		switch {
		case !pinned:
			res.Undecided = []string{"trusted contract of " + u.Name + " has no pinned body (run `govc pins` after reviewing it)"}
		case pin != want:
			res.Undecided = []string{fmt.Sprintf("body of %s changed since its trusted contract was reviewed (pin %s, now %s): the contract is not trusted for this body", u.Name, want, pin)}
		default:
			res.Assumed = []string{"contract of " + u.Name + " is trusted (body not verified; pinned " + pin + ")"}
		}
		return res
	}
	st := &State{vars: map[types.Object]Term{}, fields: map[string]*HeapVer{}, ghost: map[string]Term{}, models: map[string]*HeapVer{},
		seenInst: map[string]bool{}, closures: map[string]*UnitInfo{}}
	st.clk = x.d.constant("clk0", "Int")
	st.assume("(>= clk0 0)")
	x.entry = st
	// reveal: model functions owned by the receiver type, plus declared ones
	for _, m := range spec.Reveal {
		x.revealed[m] = true
	}
	if u.Recv != nil {
		if n, _ := derefNamed(u.Recv.Type()); n != nil {
			for name, mu := range en.prog.Contracts.Models {
				if len(mu.ModelPT) > 0 {
					pt := strings.TrimPrefix(mu.ModelPT[0], "*")
					if j := strings.Index(pt, "["); j >= 0 {
						pt = pt[:j]
					}
					if pt == n.Obj().Name() {
						x.revealed[name] = true
					}
				}
			}
		}
	}
	bindVar := func(v *types.Var, hint string) Term {
		so := x.d.sortOf(v.Type())
		t := Term{S: x.d.constant("p_"+sanitizeSym(hint), so), Sort: so, T: v.Type()}
		st.vars[v] = t
		x.noteRead(st, t)
		x.ifaceWellTyped(st, t, v.Type())
		return t
	}
	if u.Recv != nil {
		t := bindVar(u.Recv, "recv")
		if t.Sort == "Ref" {
			st.assume(sNot(sEq(t.S, "nilRef"))) // implicit precondition, checked at every static call site
		}
		if spec.Recv != "" {
			x.hdr[spec.Recv] = t
		}
	}
	np := u.Sig.Params().Len()
	if len(spec.Params) != np || len(spec.Results) != u.Sig.Results().Len() {
		res.Undecided = []string{fmt.Sprintf("contract header of %s binds %d parameters and %d results, the function has %d and %d (callers fall back to its body)", u.Name, len(spec.Params), len(spec.Results), np, u.Sig.Results().Len())}
		return res
	}
	for i := 0; i < np; i++ {
		v := u.Sig.Params().At(i)
		t := bindVar(v, fmt.Sprintf("%d_%s", i, v.Name()))
		if spec.Params[i] != "_" {
			x.hdr[spec.Params[i]] = t
		}
	}
	var resVars []*types.Var
	for i := 0; i < u.Sig.Results().Len(); i++ {
		rv := u.Sig.Results().At(i)
		if rv.Name() != "" {
			st.vars[rv] = x.d.zeroOf(rv.Type())
			resVars = append(resVars, rv)
		}
	}
	if u.Lit != nil {
		x.self = Term{S: x.d.constant("self", "Fun"), Sort: "Fun"}
		st.assume("(not (= self nilF))")
		x.hdr["self"] = x.self
	}
	if u.Lit != nil && u.Spec != nil && u.Spec.Hint != "" && u.Natural != u.Spec.Hint {
		// the contract reached this literal by position only: its name hint does not match any more. A failed obligation
		// then says that the contract has to be re-attached, not that the code is wrong.
		st.approx = fmt.Sprintf("closure contract bound by position: hint %q does not match the literal's natural name %q", u.Spec.Hint, u.Natural)
	}
	x.world(st)
	x.entry = st.snapshot()
	x.entry.pc = nil
	// inherited rigid facts from enclosing units
	for a := u.Parent; a != nil; a = a.Parent {
		as := x.effectiveSpec(a)
		if as == nil {
			continue
		}
		binds := map[string]Term{}
		for i, p := range as.Params {
			if i < a.Sig.Params().Len() && p != "_" {
				pv := a.Sig.Params().At(i)
				if t, ok := st.vars[pv]; ok {
					binds[p] = t
				} else {
					binds[p] = x.capturedVar(st, pv)
				}
			}
		}
		for _, c := range as.clauses("requires") {
			if isRigid(c.Expr, en.prog.Contracts.Models) && !mentions(c.Expr, "self") {
				st.assume(x.cxBoolIn(st, c.Expr, x.entry, binds, a))
			}
		}
	}
	// own ghost and requires
	for _, c := range spec.clauses("ghost") {
		if u.Lit == nil {
			// a ghost clause of a function: a mark it sets, or one rule of an inductively defined abstract predicate
			x.assumed["ghost rule assumed at the entry of "+u.Name+": "+c.Src] = true
		}
		st.assume(x.cxBool(st, c.Expr, x.entry, nil))
	}
	for _, c := range spec.clauses("captured-inv") {
		x.assumed["A-late: closure "+u.Name+" is not invoked before its late-bound captured variables are assigned; invariant checked at the exits of the declaring function: "+c.Src] = true
		st.assume(x.cxBool(st, c.Expr, x.entry, nil))
	}
	for _, c := range spec.clauses("requires") {
		st.assume(x.cxBool(st, c.Expr, x.entry, nil))
	}
	x.entry.clk = st.clk
	// cover: the entry assumptions are satisfiable
	if cov := x.oblige(st, "cover", "cover[entry]", "false", nil); cov != nil {
		cov.Expect = "sat"
	}

	exit := func(st *State, results []Term) {
		if st.dead {
			return
		}
		binds := map[string]Term{}
		for i, r := range results {
			if i < len(spec.Results) {
				binds[spec.Results[i]] = x.conv(st, r, u.Sig.Results().At(i).Type())
			}
		}
		for i, c := range spec.clauses("ensures") {
			if strings.HasPrefix(c.Name, "local:") {
				// an exit obligation over local variables: checked on the paths where they are bound
				// evaluated on a copy of the state: a clause that mentions a local not bound on this path is dropped
				// together with everything its partial evaluation recorded (instances, read notes)
				nUnd := len(x.undecided)
				st2 := st.clone()
				g := x.cxBool(st2, c.Expr, x.entry, binds)
				if len(x.undecided) > nUnd {
					x.undecided = x.undecided[:nUnd]
					continue
				}
				x.oblige(st2, "ensures", "ensures["+c.Name+"]", g, nil)
				continue
			}
			g := x.cxBool(st, c.Expr, x.entry, binds)
			lbl := clauseLabel(c, i)
			x.oblige(st, "ensures", "ensures["+lbl+"]", g, nil)
			if tw := x.oblige(st, "twin", "twin[ensures["+lbl+"]]", sNot(g), nil); tw != nil {
				tw.Expect = "sat"
			}
		}
		// cover[label] e: some path must end in a state satisfying e (reachability behind the assumptions; grouped like the twins:
		// it is a vacuity alarm only when no path reaches it)
		for i, c := range spec.clauses("cover") {
			nUnd := len(x.undecided)
			st2 := st.clone()
			g := x.cxBool(st2, c.Expr, x.entry, binds)
			if len(x.undecided) > nUnd {
				// mentions a local that is not bound on this path
				x.undecided = x.undecided[:nUnd]
				st2 = st
				g = "false"
			}
			if tw := x.oblige(st2, "twin", "twin[cover["+clauseLabel(c, i)+"]]", sNot(g), nil); tw != nil {
				tw.Expect = "sat"
			}
		}
		for _, ch := range u.Children {
			if ch.Spec == nil {
				continue
			}
			for i, c := range ch.Spec.clauses("captured-inv") {
				g := x.cxBoolIn(st, c.Expr, x.entry, map[string]Term{}, ch)
				x.oblige(st, "ensures", fmt.Sprintf("captured-inv[%s.%s]", ch.Key, clauseLabel(c, i)), g, nil)
			}
		}
		if rf := spec.clauses("refines"); len(rf) > 0 && x.hooks != nil {
			q := x.cxTermIn(st, rf[0].Expr, x.entry, binds, nil)
			co := x.hooks.coOf(x, st, spec, binds)
			x.hooks.checkRefines(x, st, q.S, co.S)
		}
		x.pathEnd()
	}
	fr := &frame{onReturn: exit, results: resVars}
	x.stmts(st, u.Body.List, fr, func(st *State) {
		var rs []Term
		for _, rv := range resVars {
			rs = append(rs, st.vars[rv])
		}
		if len(rs) != u.Sig.Results().Len() && u.Sig.Results().Len() > 0 {
			return // unreachable end of a function with results (Go requires a terminating statement)
		}
		x.runDefers(st, func(st *State) { exit(st, rs) })
	})
	res.Obls = x.obls
	res.Undecided = x.undecided
	res.Paths = x.paths
	for a := range x.assumed {
		res.Assumed = append(res.Assumed, a)
	}
	sort.Strings(res.Assumed)
	res.Script = func(o *Obligation) string { return x.script(o) }
	return res
}

func mentions(e cx, name string) bool {
	found := false
	var walk func(e cx)
	walk = func(e cx) {
		switch y := e.(type) {
		case *cxIdent:
			if y.Name == name {
				found = true
			}
		case *cxUn:
			walk(y.X)
		case *cxBin:
			walk(y.L)
			walk(y.R)
		case *cxSel:
			walk(y.X)
		case *cxIdx:
			walk(y.X)
			walk(y.I)
		case *cxCall:
			for _, a := range y.Args {
				walk(a)
			}
		case *cxQuant:
			walk(y.Body)
		case *cxLet:
			walk(y.Val)
			walk(y.Body)
		case *cxIte:
			walk(y.C)
			walk(y.A)
			walk(y.B)
		}
	}
	walk(e)
	return found
}

func (x *Exec) script(o *Obligation) string {
	var b strings.Builder
	b.WriteString(x.d.prelude)
	b.WriteString("\n; ---- declarations\n")
	for _, l := range x.d.lines {
		b.WriteString(l)
		b.WriteByte('\n')
	}
	for _, f := range x.d.strLitFacts() {
		fmt.Fprintf(&b, "(assert %s)\n", f)
	}
	fmt.Fprintf(&b, "; ---- obligation %s (%s) %s\n", o.Name, o.Kind, o.Pos)
	for _, p := range o.PC {
		fmt.Fprintf(&b, "(assert %s)\n", p)
	}
	if o.Expect == "sat" && o.Kind == "cover" {
		// satisfiability of the assumptions only
	} else {
		fmt.Fprintf(&b, "(assert (not %s))\n", o.Goal)
	}
	b.WriteString("(check-sat)\n(get-model)\n")
	return b.String()
}

// ---------------------------------------------------------------- rigid links (read-only AST units)

func (x *Exec) astReadonly() bool {
	return x.unit.Spec != nil && x.unit.Spec.Flags["abstracted"] == false && x.unit.Pkg.Name == "rewriter" && x.unit.Spec.hasFlagReadonly()
}

func (u *UnitSpec) hasFlagReadonly() bool {
	for _, r := range u.Reveal {
		if r == "ast-readonly" {
			return true
		}
	}
	return false
}

// wfAst: what go/parser guarantees about the shape of a syntax tree, assumed
// (and listed) in read-only AST units: block-typed Body fields are non-nil,
// the statements of a switch body are case clauses, those of a select body are
// comm clauses. Provenance is tracked on the terms read.
func (x *Exec) wfAstField(st *State, key, ref string, val Term) {
	list := func(r string) string { return "(g_ast.BlockStmt.List " + r + ")" }
	switch key {
	case "ast.IfStmt.Body", "ast.ForStmt.Body", "ast.RangeStmt.Body":
		st.assume(sAnd(sNot(sEq(val.S, "nilRef")), "(StmtList "+list(val.S)+")"))
	case "ast.SwitchStmt.Body", "ast.TypeSwitchStmt.Body":
		st.assume(sAnd(sNot(sEq(val.S, "nilRef")), "(CaseList "+list(val.S)+")"))
	case "ast.SelectStmt.Body":
		st.assume(sAnd(sNot(sEq(val.S, "nilRef")), "(CommList "+list(val.S)+")"))
	case "ast.CaseClause.Body", "ast.CommClause.Body":
		st.assume("(StmtList " + val.S + ")")
	case "ast.LabeledStmt.Stmt":
		st.assume("(ProperStmt " + val.S + ")")
	case "ast.IfStmt.Else":
		st.assume(sImp(sNot(sEq(val.S, "nilIface")), "(ProperStmt "+val.S+")"))
	}
}

// wfAstFieldPlain: the same facts over the values read (no rigid field functions: pass 2 rewrites some fields).
func (x *Exec) wfAstFieldPlain(st *State, key, ref string, val Term) {
	switch key {
	case "ast.IfStmt.Body", "ast.ForStmt.Body", "ast.RangeStmt.Body", "ast.FuncLit.Body":
		st.assume(sNot(sEq(val.S, "nilRef")))
		x.prov[val.S] = "stmtblock"
	case "ast.SwitchStmt.Body", "ast.TypeSwitchStmt.Body":
		st.assume(sNot(sEq(val.S, "nilRef")))
		x.prov[val.S] = "caseblock"
	case "ast.BlockStmt.List":
		switch x.prov[ref] {
		case "stmtblock":
			st.assume("(StmtList " + val.S + ")")
		case "caseblock":
			st.assume("(CaseList " + val.S + ")")
		}
	case "ast.CaseClause.Body":
		st.assume("(StmtList " + val.S + ")")
	case "ast.IfStmt.Else":
		st.assume(sOr(sEq(val.S, "nilIface"), sAnd(sNot(sEq("(iref "+val.S+")", "nilRef")), sOr(sEq("(itag "+val.S+")", "K_BlockStmt"), sEq("(itag "+val.S+")", "K_IfStmt")))))
		lst := x.readField(st, "ast.BlockStmt.List", "Slice", "(iref "+val.S+")")
		st.assume(sImp(sEq("(itag "+val.S+")", "K_BlockStmt"), "(StmtList "+lst.S+")"))
	case "ast.ForStmt.Init", "ast.ForStmt.Post", "ast.SwitchStmt.Init", "ast.TypeSwitchStmt.Init", "ast.IfStmt.Init", "ast.TypeSwitchStmt.Assign":
		// simple statements: absent, or a proper statement that is not a block
		st.assume(sOr(sEq(val.S, "nilIface"), sAnd("(ProperStmt "+val.S+")", sNot(sEq("(itag "+val.S+")", "K_BlockStmt")))))
		// Go grammar: SimpleStmt = ExpressionStmt | SendStmt | IncDecStmt | Assignment | ShortVarDecl (an empty one is absent)
		st.assume(sOr(sEq(val.S, "nilIface"), sEq("(itag "+val.S+")", "K_ExprStmt"), sEq("(itag "+val.S+")", "K_SendStmt"), sEq("(itag "+val.S+")", "K_IncDecStmt"), sEq("(itag "+val.S+")", "K_AssignStmt")))
		if key != "ast.IfStmt.Init" && key != "ast.TypeSwitchStmt.Assign" && !x.unit.Spec.reveals("pre-pass0") {
			// A-pass0: pass 0 hoisted every `:=` initialiser of a for/switch/type-switch out of the statement
			// (and Go's grammar forbids `:=` in a post statement)
			x.assumed["A-pass0: for/switch/type-switch initialisers reaching pass 2 are not short variable declarations (pass 0 hoisted them)"] = true
			tok := x.readField(st, "ast.AssignStmt.Tok", "Int", "(iref "+val.S+")")
			st.assume(sNot(sAnd(sEq("(itag "+val.S+")", "K_AssignStmt"), sEq(tok.S, "TDEFINE"))))
		}
	case "ast.ForStmt.Cond", "ast.SwitchStmt.Tag", "ast.IfStmt.Cond", "ast.RangeStmt.Key", "ast.RangeStmt.Value",
		"ast.ParenExpr.X", "ast.SelectorExpr.X", "ast.IndexExpr.X", "ast.IndexExpr.Index", "ast.IndexListExpr.X", "ast.CallExpr.Fun":
		// no typed-nil nodes
		st.assume(sOr(sEq(val.S, "nilIface"), sNot(sEq("(iref "+val.S+")", "nilRef"))))
	case "ast.ExprStmt.X":
		st.assume(sAnd(sNot(sEq("(itag "+val.S+")", "0")), sNot(sEq("(iref "+val.S+")", "nilRef"))))
	case "ast.BranchStmt.Tok":
		st.assume(sOr(sEq(val.S, "TBREAK"), sEq(val.S, "TCONTINUE"), sEq(val.S, "TGOTO"), sEq(val.S, "TFALLTHROUGH")))
	}
}

func (x *Exec) wfAstElem(st *State, sl Term, idx string, val Term) {
	in := fmt.Sprintf("(and (<= 0 %s) (< %s (s_len %s)))", idx, idx, sl.S)
	st.assume(sImp(sAnd("(StmtList "+sl.S+")", in), "(ProperStmt "+val.S+")"))
	st.assume(sImp(sAnd("(CaseList "+sl.S+")", in), sAnd(sEq("(itag "+val.S+")", "K_CaseClause"), "(ClauseStmt "+val.S+")")))
	st.assume(sImp(sAnd("(CommList "+sl.S+")", in), sAnd(sEq("(itag "+val.S+")", "K_CommClause"), "(ClauseStmt "+val.S+")")))
}

func (x *Exec) wfAstOnly() bool {
	if x.unit.Spec == nil || x.unit.Pkg.Name != "rewriter" {
		return false
	}
	for _, r := range x.unit.Spec.Reveal {
		if r == "wf-ast" {
			return true
		}
	}
	return false
}

func (x *Exec) rigidLinkField(st *State, key, ref string, val Term) {
	if strings.HasPrefix(key, "ast.") && x.wfAstOnly() {
		x.assumed["WfAst: the syntax trees entering pass 2 are well-formed (go/parser output transformed by the pass-0/1 builders): non-nil block bodies; statement lists hold proper statements, switch bodies case clauses; else branches are blocks or ifs; no typed-nil nodes"] = true
		x.wfAstFieldPlain(st, key, ref, val)
		return
	}
	if !strings.HasPrefix(key, "ast.") || !x.astReadonly() {
		return
	}
	x.assumed["WfAst: go/parser output is well-formed (non-nil block bodies; statement lists hold proper statements, switch bodies case clauses, select bodies comm clauses; no typed-nil nodes)"] = true
	x.wfAstField(st, key, ref, val)
	g := "g_" + key
	if _, ok := x.d.sigs[g]; !ok {
		return
	}
	k := "rigid@" + key + "@" + ref
	if st.seenInst[k] {
		return
	}
	st.seenInst[k] = true
	st.assume(sEq(val.S, fmt.Sprintf("(%s %s)", g, ref)))
}

func (x *Exec) rigidLinkElem(st *State, sl Term, idx string, val Term) {
	if x.wfAstOnly() && val.Sort == "Iface" {
		x.wfAstElem(st, sl, idx, val)
		// a block statement inside a statement list holds a statement list (over the heap, not the rigid functions)
		k := "wfblk@" + val.S
		if !st.seenInst[k] {
			st.seenInst[k] = true
			lst := x.readField(st, "ast.BlockStmt.List", "Slice", "(iref "+val.S+")")
			in := fmt.Sprintf("(and (<= 0 %s) (< %s (s_len %s)))", idx, idx, sl.S)
			st.assume(sImp(sAnd("(StmtList "+sl.S+")", in, sEq("(itag "+val.S+")", "K_BlockStmt")), "(StmtList "+lst.S+")"))
		}
		return
	}
	if !x.astReadonly() || val.Sort != "Iface" {
		return
	}
	if _, ok := x.d.sigs["lget"]; !ok {
		return
	}
	x.wfAstElem(st, sl, idx, val)
	k := "rigidE@" + sl.S + "@" + idx
	if st.seenInst[k] {
		return
	}
	st.seenInst[k] = true
	st.assume(sEq(val.S, fmt.Sprintf("(lget %s %s)", sl.S, idx)))
}

// noteSpecUnfold: ground unfolding instance of a recursive spec function of
// the goast prelude at the arguments it is applied to.
func (x *Exec) noteSpecUnfold(st *State, fun string, args []string) {
	unf := "unfold" + fun
	if _, ok := x.d.sigs[unf]; !ok {
		return
	}
	k := "unfold@" + fun + "@" + strings.Join(args, ",")
	if st.seenInst[k] {
		return
	}
	st.seenInst[k] = true
	a := strings.Join(args, " ")
	st.assume(sEq(fmt.Sprintf("(%s %s)", fun, a), fmt.Sprintf("(%s %s)", unf, a)))
	// secondary instances: the per-element predicate a list predicate unfolds to
	switch fun {
	case "AllOK":
		x.noteSpecUnfold(st, "ClauseOK", []string{args[0], fmt.Sprintf("(lget %s (- %s 1))", args[1], args[2])})
	case "AllCommOK":
		x.noteSpecUnfold(st, "CommOK", []string{args[0], fmt.Sprintf("(lget %s (- %s 1))", args[1], args[2])})
	}
}

// ---------------------------------------------------------------- seq theory

type seqTheory struct{}

const (
	kCoStep    = "seq.co.step"
	kStepValue = "seq.step.value"
	kStepNext  = "seq.step.next"
	kGenResult = "seq.generator.result"
)

// noteSpecApp asserts the ground instances of the defining equations of
// wrapL / constL for the spec-function application just built.
func (h *seqTheory) noteSpecApp(x *Exec, st *State, fun string, args []string) {
	once := func(k string) bool {
		if st.seenInst[k] {
			return false
		}
		st.seenInst[k] = true
		return true
	}
	var lazyInst func(a, w string)
	lazyInst = func(a, w string) {
		if once("lazyI@" + a + "@" + w) {
			st.assume(fmt.Sprintf("(=> (isConstL %s) (and (= (lazy_ret %s %s) (unconstL %s)) (= (lazy_w %s %s) %s)))", a, a, w, a, a, w, w))
		}
	}
	lazyrInst := func(a, v, w string) {
		if once("lazyrI@" + a + "@" + v + "@" + w) {
			st.assume(fmt.Sprintf("(=> (isWrapL %s) (and (= (lazyr_ret %s %s %s) (lazy_ret (unwrapL %s) %s)) (= (lazyr_w %s %s %s) (lazy_w (unwrapL %s) %s))))", a, a, v, w, a, w, a, v, w, a, w))
			lazyInst("(unwrapL "+a+")", w)
		}
	}
	switch fun {
	case "wrapL":
		t := "(wrapL " + args[0] + ")"
		if once("wrapL@" + t) {
			st.assume(fmt.Sprintf("(and (isWrapL %s) (= (unwrapL %s) %s))", t, t, args[0]))
		}
	case "constL":
		t := "(constL " + args[0] + ")"
		if once("constL@" + t) {
			st.assume(fmt.Sprintf("(and (isConstL %s) (= (unconstL %s) %s))", t, t, args[0]))
		}
	case "lazyr_ret", "lazyr_w":
		lazyrInst(args[0], args[1], args[2])
	case "lazy_ret", "lazy_w":
		lazyInst(args[0], args[1])
	case "FoNext":
		lazyrInst("(nres "+args[0]+")", args[1], args[2])
	}
}

func (h *seqTheory) coOf(x *Exec, st *State, spec *UnitSpec, binds map[string]Term) Term {
	cs := spec.clauses("co")
	if len(cs) == 0 {
		x.undecide("refines without a co clause in %s", spec.Key)
		return Term{S: "nilRef", Sort: "Ref"}
	}
	return x.cxTermIn(st, cs[0].Expr, x.entry, binds, nil)
}

func (h *seqTheory) unfold(x *Exec, st *State, q, w string) string {
	fo := fmt.Sprintf("(M %s %s)", q, w)
	k := "unfoldM@" + fo
	if !st.seenInst[k] {
		st.seenInst[k] = true
		st.assume(sEq(fo, fmt.Sprintf("(unfoldM %s %s)", q, w)))
	}
	return fo
}

// runM: the effect of running the reference machine from state q.
func (h *seqTheory) runM(x *Exec, st *State, q, c string) {
	w := x.world(st)
	fo := fmt.Sprintf("(M %s %s)", q, w.S)
	st.ghost["W"] = Term{S: "(fo_w " + fo + ")", Sort: "World"}
	sr := x.d.fresh("step", "Ref")
	nf := x.d.fresh("next", "Fun")
	pend := "(fo_pend " + fo + ")"
	st.assume(sEq(sEq(sr, "nilRef"), "((_ is NoPend) "+pend+")"))
	st.assume(sImp(sNot(sEq(sr, "nilRef")), fmt.Sprintf("(and (>= (alloc %s) %s) (not (= %s nilF)) (= (nres %s) (pd_r %s)) (= (nst %s) (pd_s %s)) (= (Co %s) %s))", sr, st.clk, nf, nf, pend, nf, pend, nf, c)))
	nclk := x.d.fresh("clk", "Int")
	st.assume(fmt.Sprintf("(< %s %s)", st.clk, nclk))
	st.assume(fmt.Sprintf("(< (alloc %s) %s)", sr, nclk))
	st.clk = nclk
	tv := x.d.sortOf(x.valueType())
	x.fieldVer(st, kCoStep, "Ref")
	x.fieldVer(st, kStepValue, tv)
	x.fieldVer(st, kStepNext, "Fun")
	x.fieldVer(st, kGenResult, tv)
	x.writeField(st, kCoStep, "Ref", c, sr)
	x.writeField(st, kStepValue, tv, sr, "(pd_v "+pend+")")
	x.writeField(st, kStepNext, "Fun", sr, nf)
	v := st.fields[kGenResult]
	st.fields[kGenResult] = &HeapVer{term: fmt.Sprintf("(resW %s %s)", fo, v.term), sort: v.sort, parent: v, valSort: tv}
	x.havocMutableCaptures(st)
}

func (x *Exec) valueType() types.Type {
	// the type parameter V of the unit
	if x.unit.Decl != nil {
		if obj, ok := x.unit.Pkg.TypesInfo.Defs[x.unit.Decl.Name].(*types.Func); ok {
			sig := obj.Type().(*types.Signature)
			if tp := sig.TypeParams(); tp != nil && tp.Len() > 0 {
				return tp.At(0)
			}
			if tp := sig.RecvTypeParams(); tp != nil && tp.Len() > 0 {
				return tp.At(0)
			}
		}
	}
	return types.Typ[types.Int]
}

func (h *seqTheory) checkRefines(x *Exec, st *State, q, c string) {
	w0 := x.entry.ghost["W"]
	fo := h.unfold(x, st, q, w0.S)
	tv := x.d.sortOf(x.valueType())
	x.fieldVer(st, kCoStep, "Ref")
	x.fieldVer(st, kStepValue, tv)
	x.fieldVer(st, kStepNext, "Fun")
	x.fieldVer(st, kGenResult, tv)
	wf := x.world(st)
	x.oblige(st, "refines", "refines[world]", sEq(wf.S, "(fo_w "+fo+")"), nil)
	sr := x.readField(st, kCoStep, "Ref", c)
	hv := x.readField(st, kStepValue, tv, sr.S)
	hn := x.readField(st, kStepNext, "Fun", sr.S)
	abs := sIte(sEq(sr.S, "nilRef"), "StepNil", fmt.Sprintf("(StepSome %s (nres %s) (nst %s))", hv.S, hn.S, hn.S))
	x.oblige(st, "refines", "refines[step]", sEq(abs, "(stepOf "+fo+")"), nil)
	x.oblige(st, "refines", "refines[result]", sEq(st.fields[kGenResult].term, fmt.Sprintf("(resW %s %s)", fo, x.entry.fields[kGenResult].term)), nil)
	x.oblige(st, "refines", "refines[co]", sImp(sNot(sEq(sr.S, "nilRef")), sEq("(Co "+hn.S+")", c)), nil)
	if tw := x.oblige(st, "twin", "twin[refines]", "false", nil); tw != nil {
		tw.Expect = "sat"
	}
}

// ---------------------------------------------------------------- misc

func (en *Engine) loadPreludes() error {
	en.preludes = map[string]string{}
	for _, n := range []string{"machine", "iter", "goast"} {
		b, err := os.ReadFile(filepath.Join(en.specDir, n+".smt2"))
		if err != nil {
			if os.IsNotExist(err) {
				continue
			}
			return err
		}
		en.preludes[n] = string(b)
	}
	return nil
}

// reveals reports whether the unit's contract lists the given reveal flag.
func (u *UnitSpec) reveals(flag string) bool {
	if u == nil {
		return false
	}
	for _, r := range u.Reveal {
		if r == flag {
			return true
		}
	}
	return false
}
