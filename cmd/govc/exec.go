package main

// Forward symbolic execution of Go function bodies (typed AST), in
// continuation-passing style so that any expression may fork the path.

import (
	"fmt"
	"go/ast"
	"go/constant"
	"go/token"
	"go/types"
	"os"
	"strings"
)

type Obligation struct {
	Name   string
	Kind   string // ensures requires no-panic invariant refines frame cover twin overflow
	PC     []string
	Goal   string
	Pos    string
	Unit   string
	Expect string // "unsat" (default: goal must hold) or "sat" (cover / must-fail twin)
	Info   map[string]string
}

type frame struct {
	onReturn   func(st *State, results []Term)
	onBreak    func(st *State)
	onContinue func(st *State)
	results    []*types.Var // named results
}

type Exec struct {
	prog      *Program
	unit      *UnitInfo
	d         *Decls
	info      *types.Info
	obls      []*Obligation
	en        *Engine
	quantSeq  int // numbering of bound variables of contract quantifiers
	paths     int
	undecided []string
	nameCnt   map[string]int
	entry     *State
	hdr       map[string]Term // contract header names -> terms at entry (params) / exit (results)
	self      Term            // the closure value itself (closure units)
	assumed   map[string]bool // trusted / extern contracts used
	revealed  map[string]bool
	overflow  bool
	maxPaths  int
	callOrd   map[string]int
	loopOrd   map[ast.Stmt]int
	hooks     *seqTheory
	modelSort map[string]string
	modelType map[string]types.Type
	prov      map[string]string
	tsubst    map[string]types.Type // type arguments of the generic function being inlined
}

func (x *Exec) sourceLine(n ast.Node) string {
	ps := x.prog.Fset.Position(n.Pos())
	b, err := os.ReadFile(ps.Filename)
	if err != nil {
		return ""
	}
	ls := strings.Split(string(b), "\n")
	if ps.Line-1 < len(ls) {
		return ls[ps.Line-1]
	}
	return ""
}

func (x *Exec) undecide(f string, a ...any) {
	x.undecided = append(x.undecided, fmt.Sprintf(f, a...))
}

func (x *Exec) oblige(st *State, kind, name, goal string, pos ast.Node) *Obligation {
	if st.dead {
		return nil
	}
	if x.unit.Spec != nil {
		for _, ao := range x.unit.Spec.AssumeObl {
			pat, reason, _ := strings.Cut(ao, " because ")
			pat, anchor, hasAnchor := strings.Cut(pat, " at ")
			if hasAnchor && (pos == nil || !strings.Contains(x.sourceLine(pos), strings.Trim(strings.TrimSpace(anchor), "`"))) {
				continue
			}
			if strings.HasPrefix(name, strings.TrimSpace(pat)) {
				x.assumed["obligation "+x.unit.Name+":"+name+" is assumed, not proved: "+reason] = true
				return nil
			}
		}
	}
	x.nameCnt[name]++
	full := x.unit.Name + ":" + name
	if n := x.nameCnt[name]; n > 1 {
		full = fmt.Sprintf("%s~%d", full, n)
	}
	o := &Obligation{Name: full, Kind: kind, PC: append([]string(nil), st.pc...), Goal: goal, Unit: x.unit.Name, Expect: "unsat", Info: map[string]string{"path": strings.Join(st.trace, " ")}}
	if st.approx != "" {
		o.Info["approx"] = st.approx
	}
	if pos != nil {
		o.Pos = x.prog.pos(pos)
	}
	x.obls = append(x.obls, o)
	return o
}

// ---------------------------------------------------------------- heap

func (x *Exec) fieldVer(st *State, key, valSort string) *HeapVer {
	v := st.fields[key]
	if v == nil {
		name := "H0_" + sanitizeSym(key)
		x.d.constant(name, arraySort(valSort))
		v = &HeapVer{term: name, sort: arraySort(valSort), valSort: valSort}
		st.fields[key] = v
		x.entry.fields[key] = v
		if st.astEpoch > 0 && astInitKeys[key] {
			x.havocASTKey(st, key, valSort)
			v = st.fields[key]
		}
	}
	return v
}

func (x *Exec) emitFrameInst(st *State, v *HeapVer, ref string) {
	for h := v; h != nil; h = h.parent {
		if !h.havoc || h.wild {
			continue
		}
		k := h.term + "@" + ref
		if st.seenInst[k] {
			continue
		}
		st.seenInst[k] = true
		conds := []string{fmt.Sprintf("(< (alloc %s) %s)", ref, h.clk)}
		for _, e := range h.except {
			conds = append(conds, sNot(sEq(ref, e)))
		}
		st.assume(sImp(sAnd(conds...), sEq(fmt.Sprintf("(select %s %s)", h.term, ref), fmt.Sprintf("(select %s %s)", h.parent.term, ref))))
	}
}

func (x *Exec) readField(st *State, key, valSort, ref string) Term {
	v := x.fieldVer(st, key, valSort)
	x.emitFrameInst(st, v, ref)
	t := Term{S: fmt.Sprintf("(select %s %s)", v.term, ref), Sort: valSort}
	x.noteRead(st, t)
	return t
}

// noteRead records that a reference read from the state was allocated before now.
func (x *Exec) noteRead(st *State, t Term) { x.noteReadClk(st, t, st.clk) }

func (x *Exec) noteReadClk(st *State, t Term, clk string) {
	var r string
	switch t.Sort {
	case "Str":
		k := "str@" + t.S
		if !st.seenInst[k] {
			st.seenInst[k] = true
			st.assume(fmt.Sprintf("(and (<= 0 (soff %s)) (<= 0 (slen %s)) (<= (+ (soff %s) (slen %s)) MaxInt))", t.S, t.S, t.S, t.S))
		}
		return
	case "Ref":
		r = t.S
	case "Iface":
		r = "(iref " + t.S + ")"
	case "Slice":
		r = "(s_base " + t.S + ")"
	default:
		return
	}
	k := "alloc@" + r + "@" + clk
	if st.seenInst[k] {
		return
	}
	st.seenInst[k] = true
	st.assume(fmt.Sprintf("(< (alloc %s) %s)", r, clk))
	if t.Sort == "Slice" {
		st.assume(fmt.Sprintf("(and (<= 0 (s_off %s)) (<= 0 (s_len %s)) (<= (s_len %s) (s_cap %s)) (<= (+ (s_off %s) (s_cap %s)) MaxInt))", t.S, t.S, t.S, t.S, t.S, t.S))
	}
}

func (x *Exec) writeField(st *State, key, valSort, ref, val string) {
	v := x.fieldVer(st, key, valSort)
	st.fields[key] = &HeapVer{term: fmt.Sprintf("(store %s %s %s)", v.term, ref, val), sort: v.sort, parent: v, valSort: valSort}
}

// havocField replaces a field array by a fresh one; entries of refs allocated
// before clk and not listed in except keep their value (instantiated lazily).
func (x *Exec) havocField(st *State, key, valSort, clk string, except []string, wild bool) {
	v := x.fieldVer(st, key, valSort)
	name := x.d.fresh("H_"+key, v.sort)
	st.fields[key] = &HeapVer{term: name, sort: v.sort, parent: v, havoc: true, clk: clk, except: except, wild: wild, valSort: valSort}
}

func (x *Exec) alloc(st *State, hint string) Term {
	r := x.d.fresh(hint, "Ref")
	st.assume(sNot(sEq(r, "nilRef")))
	st.assume(fmt.Sprintf("(= (alloc %s) %s)", r, st.clk))
	st.clk = "(+ " + st.clk + " 1)"
	return Term{S: r, Sort: "Ref"}
}

func elemKey(sortName string) string { return "elem:" + sortName }

func (x *Exec) elemArr(st *State, elemSort, base string) string {
	key := elemKey(elemSort)
	v := x.fieldVer(st, key, "(Array Int "+elemSort+")")
	x.emitFrameInst(st, v, base)
	return fmt.Sprintf("(select %s %s)", v.term, base)
}

func (x *Exec) readElem(st *State, elemSort string, sl Term, idx string) Term {
	arr := x.elemArr(st, elemSort, "(s_base "+sl.S+")")
	t := Term{S: fmt.Sprintf("(select %s (+ (s_off %s) %s))", arr, sl.S, idx), Sort: elemSort}
	x.noteRead(st, t)
	return t
}

func (x *Exec) writeElem(st *State, elemSort string, base, absIdx, val string) {
	key := elemKey(elemSort)
	arr := x.elemArr(st, elemSort, base)
	x.writeField(st, key, "(Array Int "+elemSort+")", base, fmt.Sprintf("(store %s %s %s)", arr, absIdx, val))
}

// ---------------------------------------------------------------- types helpers

func derefNamed(t types.Type) (*types.Named, bool) {
	t = types.Unalias(t)
	isPtr := false
	if p, ok := t.(*types.Pointer); ok {
		t = types.Unalias(p.Elem())
		isPtr = true
	}
	n, _ := t.(*types.Named)
	return n, isPtr
}

func fieldKeyOf(n *types.Named, f *types.Var) string {
	pk := ""
	if n.Obj().Pkg() != nil {
		pk = n.Obj().Pkg().Name() + "."
	}
	return pk + n.Obj().Name() + "." + f.Name()
}

func structOf(t types.Type) *types.Struct {
	t = types.Unalias(t)
	if p, ok := t.(*types.Pointer); ok {
		t = p.Elem()
	}
	s, _ := t.Underlying().(*types.Struct)
	return s
}

func (x *Exec) coerceNil(t Term, want types.Type) Term {
	if t.Sort == "Nil" && want != nil {
		return x.d.zeroOf(want)
	}
	return t
}

func (x *Exec) elemSortOf(t types.Type) (string, types.Type) {
	switch u := t.Underlying().(type) {
	case *types.Slice:
		return x.d.sortOf(u.Elem()), u.Elem()
	case *types.Pointer:
		return x.elemSortOf(u.Elem())
	}
	return "Unknown", nil
}

// ifaceOK: an interface value of static type it is nil or holds one of the
// dynamic types that implement it (from go/types), pointer payloads only.
func (x *Exec) boxIface(st *State, v Term, dyn types.Type) Term {
	if v.Sort == "Iface" {
		return v
	}
	if v.Sort == "Nil" {
		return Term{S: "nilIface", Sort: "Iface"}
	}
	tag := x.d.tag(dyn)
	if v.Sort == "Ref" {
		return Term{S: fmt.Sprintf("(mkIface %d %s)", tag, v.S), Sort: "Iface", T: dyn}
	}
	box := x.d.fun("box_"+sanitizeSym(v.Sort), []string{v.Sort}, "Ref")
	unbox := x.d.fun("unbox_"+sanitizeSym(v.Sort), []string{"Ref"}, v.Sort)
	st.assume(sEq(fmt.Sprintf("(%s (%s %s))", unbox, box, v.S), v.S))
	return Term{S: fmt.Sprintf("(mkIface %d (%s %s))", tag, box, v.S), Sort: "Iface", T: dyn}
}

// convert v (of Go type from) for use at Go type to (assignment conversion).
func (x *Exec) conv(st *State, v Term, to types.Type) Term {
	if to == nil {
		return v
	}
	ts := x.d.sortOf(to)
	if v.Sort == "Nil" {
		z := x.d.zeroOf(to)
		return z
	}
	if ts == "Iface" && v.Sort != "Iface" {
		dyn := v.T
		if dyn == nil {
			dyn = types.Typ[types.Invalid]
		}
		r := x.boxIface(st, v, dyn)
		r.T = to
		return r
	}
	v.T = to
	return v
}

// ---------------------------------------------------------------- statements

func (x *Exec) stmts(st *State, list []ast.Stmt, fr *frame, k func(*State)) {
	if st.dead {
		return
	}
	if len(list) == 0 {
		k(st)
		return
	}
	x.stmt(st, list[0], fr, func(st2 *State) { x.stmts(st2, list[1:], fr, k) })
}

func (x *Exec) pathEnd() bool {
	x.paths++
	if x.paths > x.maxPaths {
		if x.paths == x.maxPaths+1 {
			x.undecide("path cap %d exceeded", x.maxPaths)
		}
		return true
	}
	return false
}

func (x *Exec) stmt(st *State, s ast.Stmt, fr *frame, k func(*State)) {
	if st.dead || len(x.undecided) > 0 {
		return
	}
	switch s := s.(type) {
	case *ast.EmptyStmt:
		k(st)
	case *ast.BlockStmt:
		x.stmts(st, s.List, fr, k)
	case *ast.ExprStmt:
		x.expr(st, s.X, func(st *State, _ Term) { k(st) })
	case *ast.DeclStmt:
		gd, ok := s.Decl.(*ast.GenDecl)
		if !ok || gd.Tok != token.VAR {
			k(st)
			return
		}
		x.declSpecs(st, gd.Specs, 0, k)
	case *ast.IncDecStmt:
		op := token.ADD
		if s.Tok == token.DEC {
			op = token.SUB
		}
		x.expr(st, s.X, func(st *State, cur Term) {
			nv := x.arith(st, op, cur, tInt("1"), s)
			nv.T = cur.T
			x.assignTo(st, s.X, nv, k)
		})
	case *ast.AssignStmt:
		x.assign(st, s, k)
	case *ast.ReturnStmt:
		if len(s.Results) == 0 {
			var rs []Term
			for _, rv := range fr.results {
				rs = append(rs, st.vars[rv])
			}
			x.runDefers(st, func(st *State) { fr.onReturn(st, rs) })
			return
		}
		if len(s.Results) == 1 {
			if ce, ok := ast.Unparen(s.Results[0]).(*ast.CallExpr); ok {
				if tup, ok := x.info.TypeOf(ce).(*types.Tuple); ok && tup.Len() > 1 {
					x.call(st, ce, func(st *State, rs []Term) { x.runDefers(st, func(st *State) { fr.onReturn(st, rs) }) })
					return
				}
			}
		}
		x.exprList(st, s.Results, func(st *State, vs []Term) { x.runDefers(st, func(st *State) { fr.onReturn(st, vs) }) })
	case *ast.DeferStmt:
		// defer func() { … }(): the literal runs when the enclosing function returns (no recover: it is outside the subset)
		lit, ok := ast.Unparen(s.Call.Fun).(*ast.FuncLit)
		if !ok || len(s.Call.Args) != 0 {
			x.undecide("unsupported defer at %s", x.prog.pos(s))
			return
		}
		st.defers = append(st.defers, deferRec{st.depth, lit})
		k(st)
	case *ast.IfStmt:
		body := func(st *State) {
			x.cond(st, s.Cond, func(st *State, c string) {
				st1 := st.clone()
				st1.assume(c)
				st1.trace = append(st1.trace, "if@"+x.prog.pos(s)+":T")
				x.stmt(st1, s.Body, fr, k)
				st.assume(sNot(c))
				st.trace = append(st.trace, "if@"+x.prog.pos(s)+":F")
				if s.Else != nil {
					x.stmt(st, s.Else, fr, k)
				} else {
					k(st)
				}
			})
		}
		if s.Init != nil {
			x.stmt(st, s.Init, fr, body)
		} else {
			body(st)
		}
	case *ast.SwitchStmt:
		x.switchStmt(st, s, fr, k)
	case *ast.TypeSwitchStmt:
		x.typeSwitch(st, s, fr, k)
	case *ast.ForStmt:
		x.forStmt(st, s, fr, k)
	case *ast.RangeStmt:
		x.rangeStmt(st, s, fr, k)
	case *ast.BranchStmt:
		switch s.Tok {
		case token.BREAK:
			if s.Label != nil || fr.onBreak == nil {
				x.undecide("unsupported break at %s", x.prog.pos(s))
				return
			}
			fr.onBreak(st)
		case token.CONTINUE:
			if s.Label != nil || fr.onContinue == nil {
				x.undecide("unsupported continue at %s", x.prog.pos(s))
				return
			}
			fr.onContinue(st)
		default:
			x.undecide("unsupported branch %s at %s", s.Tok, x.prog.pos(s))
		}
	default:
		x.undecide("unsupported statement %T at %s", s, x.prog.pos(s))
	}
}

func (x *Exec) declSpecs(st *State, specs []ast.Spec, i int, k func(*State)) {
	if i >= len(specs) {
		k(st)
		return
	}
	vs := specs[i].(*ast.ValueSpec)
	if len(vs.Values) == 0 {
		for _, nm := range vs.Names {
			if obj, ok := x.info.Defs[nm].(*types.Var); ok {
				st.vars[obj] = x.d.zeroOf(obj.Type())
				if x.prog.LateAny[obj] {
					st.ghost[x.lateKey(obj)] = tBool("true")
				}
			}
		}
		x.declSpecs(st, specs, i+1, k)
		return
	}
	x.exprList(st, vs.Values, func(st *State, vals []Term) {
		if len(vals) != len(vs.Names) {
			x.undecide("unsupported var decl at %s", x.prog.pos(vs))
			return
		}
		for j, nm := range vs.Names {
			if obj, ok := x.info.Defs[nm].(*types.Var); ok {
				st.vars[obj] = x.conv(st, vals[j], obj.Type())
			}
		}
		x.declSpecs(st, specs, i+1, k)
	})
}

func (x *Exec) assign(st *State, s *ast.AssignStmt, k func(*State)) {
	if s.Tok != token.ASSIGN && s.Tok != token.DEFINE {
		// op=
		var op token.Token
		switch s.Tok {
		case token.ADD_ASSIGN:
			op = token.ADD
		case token.SUB_ASSIGN:
			op = token.SUB
		case token.MUL_ASSIGN:
			op = token.MUL
		default:
			x.undecide("unsupported assignment operator %s at %s", s.Tok, x.prog.pos(s))
			return
		}
		x.expr(st, s.Lhs[0], func(st *State, cur Term) {
			x.expr(st, s.Rhs[0], func(st *State, r Term) {
				nv := x.arith(st, op, cur, r, s)
				nv.T = cur.T
				x.assignTo(st, s.Lhs[0], nv, k)
			})
		})
		return
	}
	if len(s.Lhs) == len(s.Rhs) {
		x.exprList(st, s.Rhs, func(st *State, vals []Term) {
			x.assignMany(st, s.Lhs, vals, 0, k)
		})
		return
	}
	// tuple forms: v, ok := x.(T) ; v, ok := m[k] ; v, ok := <-ch ; a, b := f()
	if len(s.Rhs) == 1 {
		switch r := ast.Unparen(s.Rhs[0]).(type) {
		case *ast.TypeAssertExpr:
			x.expr(st, r.X, func(st *State, v Term) {
				val, ok := x.typeAssert(st, v, x.info.TypeOf(r.Type))
				x.assignMany(st, s.Lhs, []Term{val, tBool(ok)}, 0, k)
			})
			return
		case *ast.CallExpr:
			x.call(st, r, func(st *State, rs []Term) {
				if len(rs) != len(s.Lhs) {
					x.undecide("result arity mismatch at %s", x.prog.pos(s))
					return
				}
				x.assignMany(st, s.Lhs, rs, 0, k)
			})
			return
		case *ast.UnaryExpr:
			if r.Op == token.ARROW {
				x.expr(st, r.X, func(st *State, ch Term) {
					et := x.info.TypeOf(r)
					if tup, ok := et.(*types.Tuple); ok {
						et = tup.At(0).Type()
					}
					v, ok := x.chanRecv(st, ch, et)
					x.assignMany(st, s.Lhs, []Term{v, ok}, 0, k)
				})
				return
			}
		case *ast.IndexExpr:
			x.expr(st, r.X, func(st *State, m Term) {
				x.expr(st, r.Index, func(st *State, key Term) {
					vt := x.info.TypeOf(s.Rhs[0])
					if tup, ok := vt.(*types.Tuple); ok {
						vt = tup.At(0).Type()
					}
					v, ok := x.mapGet(st, m, key, vt)
					x.assignMany(st, s.Lhs, []Term{v, ok}, 0, k)
				})
			})
			return
		}
	}
	x.undecide("unsupported assignment at %s", x.prog.pos(s))
}

func (x *Exec) assignMany(st *State, lhs []ast.Expr, vals []Term, i int, k func(*State)) {
	if i >= len(lhs) {
		k(st)
		return
	}
	x.assignTo(st, lhs[i], vals[i], func(st *State) { x.assignMany(st, lhs, vals, i+1, k) })
}

func (x *Exec) assignTo(st *State, lhs ast.Expr, val Term, k func(*State)) {
	switch l := ast.Unparen(lhs).(type) {
	case *ast.Ident:
		if l.Name == "_" {
			k(st)
			return
		}
		obj, _ := x.info.ObjectOf(l).(*types.Var)
		if obj == nil {
			x.undecide("assignment to non-variable %s", l.Name)
			return
		}
		if obj.Parent() == obj.Pkg().Scope() {
			x.undecide("assignment to package-level variable %s at %s", l.Name, x.prog.pos(l))
			return
		}
		st.vars[obj] = x.conv(st, val, obj.Type())
		x.afterAssignVar(st, obj)
		k(st)
	case *ast.SelectorExpr:
		sel := x.info.Selections[l]
		if sel == nil || sel.Kind() != types.FieldVal {
			x.undecide("unsupported assignment target at %s", x.prog.pos(l))
			return
		}
		x.fieldBase(st, l, sel, func(st *State, base Term, named *types.Named, f *types.Var, isPtr bool) {
			if !isPtr {
				x.undecide("assignment to field of struct value at %s", x.prog.pos(l))
				return
			}
			x.oblige(st, "no-panic", "no-panic[nil-deref]", sNot(sEq(base.S, "nilRef")), l)
			key := fieldKeyOf(named, f)
			v := x.conv(st, val, f.Type())
			x.checkWriteFrame(st, key, base.S, l)
			x.writeField(st, key, x.d.sortOf(f.Type()), base.S, v.S)
			k(st)
		})
	case *ast.IndexExpr:
		x.expr(st, l.X, func(st *State, sl Term) {
			x.expr(st, l.Index, func(st *State, idx Term) {
				if sl.Sort != "Slice" {
					x.undecide("unsupported index assignment at %s", x.prog.pos(l))
					return
				}
				es, et := x.elemSortOf(x.info.TypeOf(l.X))
				x.oblige(st, "no-panic", "no-panic[index]", fmt.Sprintf("(and (<= 0 %s) (< %s (s_len %s)))", idx.S, idx.S, sl.S), l)
				v := x.conv(st, val, et)
				x.writeElem(st, es, "(s_base "+sl.S+")", fmt.Sprintf("(+ (s_off %s) %s)", sl.S, idx.S), v.S)
				k(st)
			})
		})
	case *ast.StarExpr:
		x.expr(st, l.X, func(st *State, p Term) {
			et := x.info.TypeOf(l)
			es := x.d.sortOf(et)
			x.oblige(st, "no-panic", "no-panic[nil-deref]", sNot(sEq(p.S, "nilRef")), l)
			v := x.conv(st, val, et)
			x.writeField(st, "cell:"+es, es, p.S, v.S)
			k(st)
		})
	default:
		x.undecide("unsupported assignment target %T at %s", lhs, x.prog.pos(lhs))
	}
}

// cond evaluates a boolean expression with Go's short-circuit order, forking
// where the right operand may have effects or obligations.
func (x *Exec) cond(st *State, e ast.Expr, k func(*State, string)) {
	x.expr(st, e, func(st *State, t Term) { k(st, t.S) })
}

func (x *Exec) switchStmt(st *State, s *ast.SwitchStmt, fr *frame, k func(*State)) {
	run := func(st *State) {
		inner := &frame{onReturn: fr.onReturn, onContinue: fr.onContinue, results: fr.results, onBreak: k}
		withTag := func(st *State, tag *Term) {
			var clauses []*ast.CaseClause
			var def *ast.CaseClause
			for _, c := range s.Body.List {
				cc := c.(*ast.CaseClause)
				if cc.List == nil {
					def = cc
				} else {
					clauses = append(clauses, cc)
				}
			}
			var tryClause func(st *State, i int)
			tryClause = func(st *State, i int) {
				if i >= len(clauses) {
					if def != nil {
						x.caseBody(st, def, inner, k)
					} else {
						k(st)
					}
					return
				}
				cc := clauses[i]
				x.exprList(st, cc.List, func(st *State, vs []Term) {
					var alts []string
					for _, v := range vs {
						if tag != nil {
							alts = append(alts, x.eqTerm(st, *tag, v))
						} else {
							alts = append(alts, v.S)
						}
					}
					c := sOr(alts...)
					st1 := st.clone()
					st1.assume(c)
					x.caseBody(st1, cc, inner, k)
					st.assume(sNot(c))
					tryClause(st, i+1)
				})
			}
			tryClause(st, 0)
		}
		if s.Tag != nil {
			x.expr(st, s.Tag, func(st *State, t Term) { withTag(st, &t) })
		} else {
			withTag(st, nil)
		}
	}
	if s.Init != nil {
		x.stmt(st, s.Init, fr, run)
	} else {
		run(st)
	}
}

func (x *Exec) caseBody(st *State, cc *ast.CaseClause, fr *frame, k func(*State)) {
	for _, b := range cc.Body {
		if br, ok := b.(*ast.BranchStmt); ok && br.Tok == token.FALLTHROUGH {
			x.undecide("fallthrough at %s", x.prog.pos(br))
			return
		}
	}
	x.stmts(st, cc.Body, fr, k)
}

func (x *Exec) typeSwitch(st *State, s *ast.TypeSwitchStmt, fr *frame, k func(*State)) {
	var subject ast.Expr
	var bindName *ast.Ident
	switch a := s.Assign.(type) {
	case *ast.ExprStmt:
		subject = a.X.(*ast.TypeAssertExpr).X
	case *ast.AssignStmt:
		subject = a.Rhs[0].(*ast.TypeAssertExpr).X
		bindName = a.Lhs[0].(*ast.Ident)
	}
	_ = bindName
	run := func(st *State) {
		x.expr(st, subject, func(st *State, v Term) {
			if v.Sort != "Iface" {
				x.undecide("type switch on non-interface at %s", x.prog.pos(s))
				return
			}
			inner := &frame{onReturn: fr.onReturn, onContinue: fr.onContinue, results: fr.results, onBreak: k}
			var clauses []*ast.CaseClause
			var def *ast.CaseClause
			for _, c := range s.Body.List {
				cc := c.(*ast.CaseClause)
				if cc.List == nil {
					def = cc
				} else {
					clauses = append(clauses, cc)
				}
			}
			bindIn := func(st *State, cc *ast.CaseClause, single types.Type) {
				if obj, ok := x.info.Implicits[cc].(*types.Var); ok {
					if single != nil && x.d.sortOf(single) != "Iface" {
						val, _ := x.unboxAs(st, v, single)
						st.vars[obj] = val
					} else {
						vv := v
						vv.T = obj.Type()
						st.vars[obj] = vv
					}
				}
			}
			var try func(st *State, i int)
			try = func(st *State, i int) {
				if i >= len(clauses) {
					if def != nil {
						bindIn(st, def, nil)
						x.caseBody(st, def, inner, k)
					} else {
						k(st)
					}
					return
				}
				cc := clauses[i]
				var alts []string
				var single types.Type
				for _, te := range cc.List {
					if id, ok := te.(*ast.Ident); ok && id.Name == "nil" && x.info.Types[te].IsNil() {
						alts = append(alts, sEq("(itag "+v.S+")", "0"))
						continue
					}
					tt := x.info.TypeOf(te)
					alts = append(alts, x.hasDynType(st, v, tt))
					if len(cc.List) == 1 {
						single = tt
					}
				}
				c := sOr(alts...)
				st1 := st.clone()
				st1.assume(c)
				st1.trace = append(st1.trace, "case@"+x.prog.pos(cc))
				bindIn(st1, cc, single)
				x.caseBody(st1, cc, inner, k)
				st.assume(sNot(c))
				try(st, i+1)
			}
			try(st, 0)
		})
	}
	if s.Init != nil {
		x.stmt(st, s.Init, fr, run)
	} else {
		run(st)
	}
}

// hasDynType: formula "interface value v holds dynamic type tt" (or, for an
// interface type tt, "v is non-nil and its dynamic type implements tt").
func (x *Exec) hasDynType(st *State, v Term, tt types.Type) string {
	if it, ok := tt.Underlying().(*types.Interface); ok {
		var alts []string
		for _, cand := range x.candidateDynTypes() {
			if types.Implements(cand, it) {
				alts = append(alts, sEq("(itag "+v.S+")", fmt.Sprint(x.d.tag(cand))))
			}
		}
		if len(alts) == 0 {
			return "false"
		}
		return sOr(alts...)
	}
	return sEq("(itag "+v.S+")", fmt.Sprint(x.d.tag(tt)))
}

var astNodeTypes []types.Type

// candidateDynTypes: the pointer types of go/ast that implement ast.Node
// (the only interface family the rewriter switches over).
func (x *Exec) candidateDynTypes() []types.Type {
	if astNodeTypes != nil {
		return astNodeTypes
	}
	for _, pk := range x.prog.Pkgs {
		for _, imp := range pk.Imports {
			if imp.PkgPath == "go/ast" && imp.Types != nil {
				sc := imp.Types.Scope()
				node, _ := sc.Lookup("Node").Type().Underlying().(*types.Interface)
				for _, nm := range sc.Names() {
					tn, ok := sc.Lookup(nm).(*types.TypeName)
					if !ok {
						continue
					}
					if _, ok := tn.Type().Underlying().(*types.Struct); !ok {
						continue
					}
					pt := types.NewPointer(tn.Type())
					if node != nil && types.Implements(pt, node) {
						astNodeTypes = append(astNodeTypes, pt)
					}
				}
				return astNodeTypes
			}
		}
	}
	return astNodeTypes
}

// ifaceWellTyped: the Go type system's guarantee about an interface value of static type it.
func (x *Exec) ifaceWellTyped(st *State, v Term, it types.Type) {
	if v.Sort != "Iface" || it == nil {
		return
	}
	iface, ok := it.Underlying().(*types.Interface)
	if !ok || iface.NumMethods() == 0 {
		return
	}
	n, _ := types.Unalias(it).(*types.Named)
	if n == nil || n.Obj().Pkg() == nil || n.Obj().Pkg().Path() != "go/ast" {
		return
	}
	k := "wt@" + v.S
	if st.seenInst[k] {
		return
	}
	st.seenInst[k] = true
	st.assume(sOr(sEq("(itag "+v.S+")", "0"), x.hasDynType(st, v, it)))
	st.assume(sImp(sEq("(itag "+v.S+")", "0"), sEq("(iref "+v.S+")", "nilRef")))
}

func (x *Exec) unboxAs(st *State, v Term, tt types.Type) (Term, string) {
	so := x.d.sortOf(tt)
	ok := x.hasDynType(st, v, tt)
	switch so {
	case "Iface":
		r := v
		r.T = tt
		return r, ok
	case "Ref":
		return Term{S: "(iref " + v.S + ")", Sort: "Ref", T: tt}, ok
	}
	unbox := x.d.fun("unbox_"+sanitizeSym(so), []string{"Ref"}, so)
	x.d.fun("box_"+sanitizeSym(so), []string{so}, "Ref")
	return Term{S: fmt.Sprintf("(%s (iref %s))", unbox, v.S), Sort: so, T: tt}, ok
}

// typeAssert returns the comma-ok pair; the caller adds the obligation for the single-value form.
func (x *Exec) typeAssert(st *State, v Term, tt types.Type) (Term, string) {
	if tp, ok := tt.(*types.TypeParam); ok && x.tsubst[tp.Obj().Name()] != nil {
		tt = x.tsubst[tp.Obj().Name()]
	}
	if tp, ok := tt.(*types.TypeParam); ok {
		// x.(P): succeeds iff the dynamic type is P's type argument; for an
		// interface type argument it fails exactly on the nil interface.
		so := x.d.sortOf(tp)
		isIface := x.d.constant("tparam_is_iface_"+tp.Obj().Name(), "Bool")
		tag := x.d.tag(tp)
		ok := sIte(isIface, sNot(sEq("(itag "+v.S+")", "0")), sEq("(itag "+v.S+")", fmt.Sprint(tag)))
		unbox := x.d.fun("unbox_"+sanitizeSym(so), []string{"Ref"}, so)
		x.d.fun("box_"+sanitizeSym(so), []string{so}, "Ref")
		val := sIte(ok, fmt.Sprintf("(%s (iref %s))", unbox, v.S), x.d.zeroOf(tp).S)
		return Term{S: val, Sort: so, T: tt}, ok
	}
	val, ok := x.unboxAs(st, v, tt)
	z := x.d.zeroOf(tt)
	return Term{S: sIte(ok, val.S, z.S), Sort: val.Sort, T: tt}, ok
}

// ---------------------------------------------------------------- loops

func (x *Exec) loopSpec(s ast.Stmt) *LoopSpec {
	ord, ok := x.loopOrd[s]
	if !ok || x.unit.Spec == nil {
		return nil
	}
	return x.unit.Spec.Loops[ord]
}

// assignedIn lists the local variables assigned in the loop and whether the
// loop contains heap writes or calls.
func (x *Exec) assignedIn(n ast.Node) (vars []*types.Var, heapWrite bool) {
	seen := map[*types.Var]bool{}
	mark := func(e ast.Expr) {
		switch l := ast.Unparen(e).(type) {
		case *ast.Ident:
			if v, ok := x.info.ObjectOf(l).(*types.Var); ok && !seen[v] {
				seen[v] = true
				vars = append(vars, v)
			}
		default:
			heapWrite = true
		}
	}
	ast.Inspect(n, func(m ast.Node) bool {
		switch y := m.(type) {
		case *ast.FuncLit:
			return false
		case *ast.AssignStmt:
			for _, l := range y.Lhs {
				mark(l)
			}
		case *ast.IncDecStmt:
			mark(y.X)
		case *ast.RangeStmt:
			if y.Key != nil {
				mark(y.Key)
			}
			if y.Value != nil {
				mark(y.Value)
			}
		case *ast.CallExpr:
			heapWrite = true
		}
		return true
	})
	return
}

func (x *Exec) havocLoop(st *State, body ast.Node, extra []*types.Var) {
	vars, heap := x.assignedIn(body)
	for _, v := range append(vars, extra...) {
		if _, ok := st.vars[v]; !ok && v.Pos() >= body.Pos() && v.Pos() < body.End() {
			continue // declared inside the loop
		}
		so := x.d.sortOf(v.Type())
		t := Term{S: x.d.fresh("loop_"+v.Name(), so), Sort: so, T: v.Type()}
		st.vars[v] = t
		x.noteRead(st, t)
		x.ifaceWellTyped(st, t, v.Type())
	}
	if heap && x.loopIsPure(body) {
		heap = false
	}
	if heap && x.loopOnlyAST(body) {
		// the calls in the loop only allocate and rewrite AST initialisers of sub-statements
		clk := st.clk
		nclk := x.d.fresh("clk", "Int")
		st.assume(fmt.Sprintf("(<= %s %s)", clk, nclk))
		st.clk = nclk
		for _, key := range sortedKeys(st.fields) {
			if astInitKeys[key] {
				x.havocASTKey(st, key, st.fields[key].valSort)
			}
		}
		st.astEpoch++
		heap = false
	}
	if heap {
		clk := st.clk
		nclk := x.d.fresh("clk", "Int")
		st.assume(fmt.Sprintf("(<= %s %s)", clk, nclk))
		st.clk = nclk
		for _, key := range sortedKeys(st.fields) {
			v := st.fields[key]
			x.havocField(st, key, v.valSort, clk, nil, true)
		}
		if w, ok := st.ghost["W"]; ok {
			st.ghost["W"] = Term{S: x.d.fresh("W", w.Sort), Sort: w.Sort}
		}
		x.havocModels(st, clk, nil, true)
	}
}

// loopIsPure: the loop body writes no heap location and every call in it is a
// static call of a function whose contract has no modifies clause (so nothing
// but freshly allocated objects can change).
func (x *Exec) loopIsPure(body ast.Node) bool {
	pure := true
	ast.Inspect(body, func(n ast.Node) bool {
		if !pure {
			return false
		}
		switch y := n.(type) {
		case *ast.FuncLit:
			return false
		case *ast.AssignStmt:
			for _, l := range y.Lhs {
				if _, ok := ast.Unparen(l).(*ast.Ident); !ok {
					pure = false
				}
			}
		case *ast.IncDecStmt:
			if _, ok := ast.Unparen(y.X).(*ast.Ident); !ok {
				pure = false
			}
		case *ast.CallExpr:
			if tv, ok := x.info.Types[y.Fun]; ok && tv.IsType() {
				return true
			}
			fun := ast.Unparen(y.Fun)
			var fn *types.Func
			switch f := fun.(type) {
			case *ast.Ident:
				if _, isB := x.info.Uses[f].(*types.Builtin); isB {
					if f.Name == "append" {
						return true
					}
					return true
				}
				fn, _ = x.info.Uses[f].(*types.Func)
			case *ast.SelectorExpr:
				if sel := x.info.Selections[f]; sel != nil {
					fn, _ = sel.Obj().(*types.Func)
				} else {
					fn, _ = x.info.Uses[f.Sel].(*types.Func)
				}
			}
			if fn == nil {
				pure = false
				return false
			}
			spec, _ := x.specOfFunc(fn.Origin())
			if spec == nil || len(spec.clauses("modifies")) > 0 || len(spec.clauses("refines")) > 0 {
				pure = false
			}
		}
		return true
	})
	return pure
}

// loopOnlyAST: like loopIsPure, but callees may carry the single modifies location AST.
func (x *Exec) loopOnlyAST(body ast.Node) bool {
	ok := true
	ast.Inspect(body, func(n ast.Node) bool {
		if !ok {
			return false
		}
		switch y := n.(type) {
		case *ast.FuncLit:
			return false
		case *ast.AssignStmt:
			for _, l := range y.Lhs {
				if _, isId := ast.Unparen(l).(*ast.Ident); !isId {
					ok = false
				}
			}
		case *ast.CallExpr:
			if tv, isT := x.info.Types[y.Fun]; isT && tv.IsType() {
				return true
			}
			var fn *types.Func
			switch f := ast.Unparen(y.Fun).(type) {
			case *ast.Ident:
				if _, isB := x.info.Uses[f].(*types.Builtin); isB {
					return true
				}
				fn, _ = x.info.Uses[f].(*types.Func)
			case *ast.SelectorExpr:
				if sel := x.info.Selections[f]; sel != nil {
					fn, _ = sel.Obj().(*types.Func)
				} else {
					fn, _ = x.info.Uses[f.Sel].(*types.Func)
				}
			}
			if fn == nil {
				ok = false
				return false
			}
			spec, _ := x.specOfFunc(fn.Origin())
			if spec == nil || len(spec.clauses("refines")) > 0 {
				ok = false
				return false
			}
			for _, m := range spec.clauses("modifies") {
				for _, loc := range m.Locs {
					if id, isId := loc.(*cxIdent); !isId || id.Name != "AST" {
						ok = false
					}
				}
			}
		}
		return true
	})
	return ok
}

func (x *Exec) forStmt(st *State, s *ast.ForStmt, fr *frame, k func(*State)) {
	spec := x.loopSpec(s)
	run := func(st *State) {
		ord := x.loopOrd[s]
		// establish invariants
		if spec != nil {
			for i, inv := range spec.Invs {
				g := x.cxBool(st, inv.Expr, x.entry, nil)
				x.oblige(st, "invariant", fmt.Sprintf("loop#%d.invariant[%s].entry", ord, clauseLabel(inv, i)), g, s)
			}
		}
		x.havocLoop(st, s, nil)
		x.noteLoopApprox(st, s, spec)
		if spec != nil {
			for _, inv := range spec.Invs {
				st.assume(x.cxBool(st, inv.Expr, x.entry, nil))
			}
		}
		backEdge := func(st *State) {
			post := func(st *State) {
				if spec != nil {
					for i, inv := range spec.Invs {
						g := x.cxBool(st, inv.Expr, x.entry, nil)
						x.oblige(st, "invariant", fmt.Sprintf("loop#%d.invariant[%s].preserved", ord, clauseLabel(inv, i)), g, s)
					}
				}
				x.pathEnd()
			}
			if s.Post != nil {
				x.stmt(st, s.Post, fr, post)
			} else {
				post(st)
			}
		}
		inner := &frame{onReturn: fr.onReturn, results: fr.results, onBreak: k, onContinue: backEdge}
		enter := func(st *State) { x.stmt(st, s.Body, inner, backEdge) }
		if s.Cond == nil {
			enter(st)
			return
		}
		x.cond(st, s.Cond, func(st *State, c string) {
			st1 := st.clone()
			st1.assume(c)
			enter(st1)
			st.assume(sNot(c))
			k(st)
		})
	}
	if s.Init != nil {
		x.stmt(st, s.Init, fr, run)
	} else {
		run(st)
	}
}

func clauseLabel(c *Clause, i int) string {
	if c.Name != "" {
		return c.Name
	}
	return fmt.Sprint(i)
}

// rangeStmt: range over a slice, desugared to an index loop over a length
// snapshot. The hidden index is visible to invariants as `_idx`.
func (x *Exec) rangeStmt(st *State, s *ast.RangeStmt, fr *frame, k func(*State)) {
	xt := x.info.TypeOf(s.X)
	if _, ok := xt.Underlying().(*types.Slice); !ok {
		x.undecide("range over %s not supported at %s", xt, x.prog.pos(s))
		return
	}
	spec := x.loopSpec(s)
	ord := x.loopOrd[s]
	x.expr(st, s.X, func(st *State, sl Term) {
		es, et := x.elemSortOf(xt)
		idxName := fmt.Sprintf("_idx%d", ord)
		binds := func(idx string) map[string]Term {
			return map[string]Term{"_idx": tInt(idx), idxName: tInt(idx), "_len": tInt("(s_len " + sl.S + ")")}
		}
		if spec != nil {
			for i, inv := range spec.Invs {
				g := x.cxBool(st, inv.Expr, x.entry, binds("0"))
				x.oblige(st, "invariant", fmt.Sprintf("loop#%d.invariant[%s].entry", ord, clauseLabel(inv, i)), g, s)
			}
		}
		x.havocLoop(st, s.Body, nil)
		x.noteLoopApprox(st, s.Body, spec)
		idx := x.d.fresh("ridx", "Int")
		st.assume(fmt.Sprintf("(and (<= 0 %s) (<= %s (s_len %s)))", idx, idx, sl.S))
		if spec != nil {
			for _, inv := range spec.Invs {
				st.assume(x.cxBool(st, inv.Expr, x.entry, binds(idx)))
			}
		}
		// exit
		stExit := st.clone()
		stExit.assume(sEq(idx, "(s_len "+sl.S+")"))
		// iterate
		st.assume(fmt.Sprintf("(< %s (s_len %s))", idx, sl.S))
		setVar := func(e ast.Expr, v Term) {
			if e == nil {
				return
			}
			id, ok := e.(*ast.Ident)
			if !ok || id.Name == "_" {
				return
			}
			if obj, ok := x.info.ObjectOf(id).(*types.Var); ok {
				st.vars[obj] = x.conv(st, v, obj.Type())
			}
		}
		setVar(s.Key, tInt(idx))
		if s.Value != nil {
			ev := x.readElem(st, es, sl, idx)
			ev.T = et
			x.ifaceWellTyped(st, ev, et)
			x.rigidLinkElem(st, sl, idx, ev)
			setVar(s.Value, ev)
		}
		backEdge := func(st *State) {
			if spec != nil {
				for i, inv := range spec.Invs {
					g := x.cxBool(st, inv.Expr, x.entry, binds("(+ "+idx+" 1)"))
					x.oblige(st, "invariant", fmt.Sprintf("loop#%d.invariant[%s].preserved", ord, clauseLabel(inv, i)), g, s)
				}
			}
			x.pathEnd()
		}
		inner := &frame{onReturn: fr.onReturn, results: fr.results, onBreak: k, onContinue: backEdge}
		x.stmt(st, s.Body, inner, backEdge)
		k(stExit)
	})
}

// ---------------------------------------------------------------- expressions

func (x *Exec) exprList(st *State, es []ast.Expr, k func(*State, []Term)) {
	var go1 func(st *State, i int, acc []Term)
	go1 = func(st *State, i int, acc []Term) {
		if i >= len(es) {
			k(st, acc)
			return
		}
		x.expr(st, es[i], func(st *State, t Term) {
			go1(st, i+1, append(append([]Term(nil), acc...), t))
		})
	}
	go1(st, 0, nil)
}

func constTerm(v constant.Value, d *Decls) (Term, bool) {
	switch v.Kind() {
	case constant.Bool:
		return tBool(fmt.Sprint(constant.BoolVal(v))), true
	case constant.Int:
		s := v.ExactString()
		if strings.HasPrefix(s, "-") {
			return tInt("(- " + s[1:] + ")"), true
		}
		return tInt(s), true
	case constant.String:
		return d.strLit(constant.StringVal(v)), true
	}
	return Term{}, false
}

func (x *Exec) pure(e ast.Expr) bool {
	ok := true
	ast.Inspect(e, func(n ast.Node) bool {
		switch y := n.(type) {
		case *ast.CallExpr:
			if id, isId := y.Fun.(*ast.Ident); isId && (id.Name == "len" || id.Name == "cap") {
				if _, isB := x.info.Uses[id].(*types.Builtin); isB {
					return true
				}
			}
			ok = false
		case *ast.IndexExpr, *ast.StarExpr, *ast.TypeAssertExpr, *ast.FuncLit, *ast.SliceExpr, *ast.CompositeLit:
			ok = false
		case *ast.SelectorExpr:
			if sel := x.info.Selections[y]; sel != nil {
				ok = false
			}
		case *ast.UnaryExpr:
			if y.Op == token.ARROW || y.Op == token.AND {
				ok = false
			}
		case *ast.BinaryExpr:
			if y.Op == token.QUO || y.Op == token.REM {
				ok = false
			}
		}
		return ok
	})
	return ok
}

func (x *Exec) expr(st *State, e ast.Expr, k func(*State, Term)) {
	if st.dead || len(x.undecided) > 0 {
		return
	}
	if tv, ok := x.info.Types[e]; ok && tv.Value != nil {
		if t, ok := constTerm(tv.Value, x.d); ok {
			t.T = tv.Type
			k(st, t)
			return
		}
	}
	switch e := e.(type) {
	case *ast.ParenExpr:
		x.expr(st, e.X, k)
	case *ast.Ident:
		x.ident(st, e, k)
	case *ast.BasicLit:
		x.undecide("unsupported literal %s at %s", e.Value, x.prog.pos(e))
	case *ast.FuncLit:
		k(st, x.makeClosure(st, e))
	case *ast.UnaryExpr:
		x.unary(st, e, k)
	case *ast.BinaryExpr:
		x.binary(st, e, k)
	case *ast.CallExpr:
		x.call(st, e, func(st *State, rs []Term) {
			if len(rs) == 0 {
				k(st, Term{S: "unit", Sort: "Unit"})
			} else {
				k(st, rs[0])
			}
		})
	case *ast.SelectorExpr:
		x.selector(st, e, k)
	case *ast.IndexExpr:
		x.index(st, e, k)
	case *ast.SliceExpr:
		x.sliceExpr(st, e, k)
	case *ast.StarExpr:
		x.expr(st, e.X, func(st *State, p Term) {
			et := x.info.TypeOf(e)
			es := x.d.sortOf(et)
			x.oblige(st, "no-panic", "no-panic[nil-deref]", sNot(sEq(p.S, "nilRef")), e)
			t := x.readField(st, "cell:"+es, es, p.S)
			t.T = et
			x.ifaceWellTyped(st, t, et)
			k(st, t)
		})
	case *ast.TypeAssertExpr:
		x.expr(st, e.X, func(st *State, v Term) {
			tt := x.info.TypeOf(e.Type)
			val, ok := x.typeAssert(st, v, tt)
			x.oblige(st, "no-panic", "no-panic[type-assert]", ok, e)
			st.assume(ok)
			k(st, val)
		})
	case *ast.CompositeLit:
		x.composite(st, e, false, k)
	default:
		x.undecide("unsupported expression %T at %s", e, x.prog.pos(e))
	}
}

func (x *Exec) ident(st *State, e *ast.Ident, k func(*State, Term)) {
	obj := x.info.ObjectOf(e)
	switch o := obj.(type) {
	case *types.Nil:
		k(st, Term{S: "nil", Sort: "Nil"})
	case *types.Var:
		if t, ok := st.vars[o]; ok {
			k(st, t)
			return
		}
		if o.Pkg() != nil && o.Parent() == o.Pkg().Scope() {
			so := x.d.sortOf(o.Type())
			n := x.d.constant("glob_"+sanitizeSym(o.Pkg().Name()+"_"+o.Name()), so)
			k(st, Term{S: n, Sort: so, T: o.Type()})
			return
		}
		// captured variable first seen here
		t := x.capturedVar(st, o)
		k(st, t)
	case *types.Func:
		n := x.d.constant("fn_"+sanitizeSym(o.FullName()), "Fun")
		k(st, Term{S: n, Sort: "Fun", T: o.Type()})
	case *types.Const:
		if t, ok := constTerm(o.Val(), x.d); ok {
			t.T = o.Type()
			k(st, t)
			return
		}
		x.undecide("unsupported constant %s", e.Name)
	default:
		x.undecide("unsupported identifier %s (%T) at %s", e.Name, obj, x.prog.pos(e))
	}
}

func (x *Exec) capturedVar(st *State, o *types.Var) Term {
	so := x.d.sortOf(o.Type())
	name := "cap_" + sanitizeSym(o.Name())
	if x.prog.Mutable[o] {
		t := Term{S: x.d.fresh(name, so), Sort: so, T: o.Type()}
		st.vars[o] = t
		return t
	}
	n := x.d.constant(name, so)
	t := Term{S: n, Sort: so, T: o.Type()}
	st.vars[o] = t
	if x.prog.LateBound[o] != nil {
		// bound exactly once, to a function literal, before any closure reading it can run (A-late)
		x.assumed["A-late: closure variable "+o.Name()+" is assigned its function literal before any closure reading it is invoked"] = true
		st.assume(sNot(sEq(n, "nilF")))
	}
	x.noteRead(st, t)
	x.ifaceWellTyped(st, t, o.Type())
	return t
}

func (x *Exec) unary(st *State, e *ast.UnaryExpr, k func(*State, Term)) {
	switch e.Op {
	case token.NOT:
		x.expr(st, e.X, func(st *State, v Term) { k(st, Term{S: sNot(v.S), Sort: "Bool", T: v.T}) })
	case token.SUB:
		x.expr(st, e.X, func(st *State, v Term) { k(st, Term{S: "(- " + v.S + ")", Sort: "Int", T: v.T}) })
	case token.ADD:
		x.expr(st, e.X, k)
	case token.AND:
		switch y := ast.Unparen(e.X).(type) {
		case *ast.CompositeLit:
			x.composite(st, y, true, k)
		case *ast.SelectorExpr:
			sel := x.info.Selections[y]
			if sel == nil || sel.Kind() != types.FieldVal {
				x.undecide("unsupported address-of at %s", x.prog.pos(e))
				return
			}
			x.fieldBase(st, y, sel, func(st *State, base Term, named *types.Named, f *types.Var, isPtr bool) {
				key := fieldKeyOf(named, f)
				fn := x.d.fun("addr_"+sanitizeSym(key), []string{"Ref"}, "Ref")
				x.assumed["address-of a field ("+key+") is modelled as an independent cell; aliasing with the field itself is not tracked"] = true
				p := Term{S: fmt.Sprintf("(%s %s)", fn, base.S), Sort: "Ref", T: x.info.TypeOf(e)}
				st.assume(sNot(sEq(p.S, "nilRef")))
				// the cell initially holds the field's value
				fs := x.d.sortOf(f.Type())
				cur := x.readField(st, key, fs, base.S)
				cur.T = f.Type()
				x.ifaceWellTyped(st, cur, f.Type())
				x.rigidLinkField(st, key, base.S, cur)
				x.writeField(st, "cell:"+fs, fs, p.S, cur.S)
				k(st, p)
			})
		default:
			x.undecide("unsupported address-of %T at %s", e.X, x.prog.pos(e))
		}
	case token.ARROW:
		x.expr(st, e.X, func(st *State, ch Term) {
			v, _ := x.chanRecv(st, ch, x.info.TypeOf(e))
			k(st, v)
		})
	default:
		x.undecide("unsupported unary %s at %s", e.Op, x.prog.pos(e))
	}
}

func (x *Exec) eqTerm(st *State, a, b Term) string {
	if a.Sort == "Nil" && b.Sort == "Nil" {
		return "true"
	}
	if a.Sort == "Nil" {
		a = x.d.zeroOfSort(b.Sort, b.T)
	}
	if b.Sort == "Nil" {
		b = x.d.zeroOfSort(a.Sort, a.T)
	}
	if a.Sort == "Iface" && b.Sort != "Iface" {
		b = x.boxIface(st, b, b.T)
	}
	if b.Sort == "Iface" && a.Sort != "Iface" {
		a = x.boxIface(st, a, a.T)
	}
	if a.Sort == "Str" {
		st.assume(sImp(sEq(a.S, b.S), fmt.Sprintf("(streq %s %s)", a.S, b.S)))
		return fmt.Sprintf("(streq %s %s)", a.S, b.S)
	}
	if a.Sort == "Slice" {
		// only comparison with nil is legal in Go
		other := a
		if a.S == "nilSlice" {
			other = b
		}
		return sEq("(s_base "+other.S+")", "nilRef")
	}
	return sEq(a.S, b.S)
}

func (x *Exec) arith(st *State, op token.Token, a, b Term, pos ast.Node) Term {
	var s string
	switch op {
	case token.ADD:
		if a.Sort == "Str" {
			cat := x.d.fun("strcat", []string{"Str", "Str"}, "Str")
			r := fmt.Sprintf("(%s %s %s)", cat, a.S, b.S)
			st.assume(sEq("(slen "+r+")", fmt.Sprintf("(+ (slen %s) (slen %s))", a.S, b.S)))
			return Term{S: r, Sort: "Str", T: a.T}
		}
		s = fmt.Sprintf("(+ %s %s)", a.S, b.S)
	case token.SUB:
		s = fmt.Sprintf("(- %s %s)", a.S, b.S)
	case token.MUL:
		s = fmt.Sprintf("(* %s %s)", a.S, b.S)
	case token.QUO:
		x.oblige(st, "no-panic", "no-panic[div-by-zero]", sNot(sEq(b.S, "0")), pos)
		// Go truncates toward zero
		s = fmt.Sprintf("(ite (>= %s 0) (div %s %s) (- (div (- %s) %s)))", a.S, a.S, b.S, a.S, b.S)
	case token.REM:
		x.oblige(st, "no-panic", "no-panic[div-by-zero]", sNot(sEq(b.S, "0")), pos)
		s = fmt.Sprintf("(ite (>= %s 0) (mod %s (abs %s)) (- (mod (- %s) (abs %s))))", a.S, a.S, b.S, a.S, b.S)
	default:
		x.undecide("unsupported operator %s at %s", op, x.prog.pos(pos))
		return tInt("0")
	}
	if x.overflow && (op == token.ADD || op == token.SUB) {
		x.oblige(st, "overflow", "no-overflow", fmt.Sprintf("(and (<= MinInt %s) (<= %s MaxInt))", s, s), pos)
	}
	return Term{S: s, Sort: "Int", T: a.T}
}

func (x *Exec) binary(st *State, e *ast.BinaryExpr, k func(*State, Term)) {
	switch e.Op {
	case token.LAND, token.LOR:
		x.expr(st, e.X, func(st *State, a Term) {
			if x.pure(e.Y) {
				x.expr(st, e.Y, func(st *State, b Term) {
					if e.Op == token.LAND {
						k(st, tBool(sAnd(a.S, b.S)))
					} else {
						k(st, tBool(sOr(a.S, b.S)))
					}
				})
				return
			}
			// short-circuit with a fork
			stSkip := st.clone()
			if e.Op == token.LAND {
				stSkip.assume(sNot(a.S))
				st.assume(a.S)
			} else {
				stSkip.assume(a.S)
				st.assume(sNot(a.S))
			}
			x.expr(st, e.Y, func(st *State, b Term) { k(st, b) })
			if e.Op == token.LAND {
				k(stSkip, tBool("false"))
			} else {
				k(stSkip, tBool("true"))
			}
		})
	case token.EQL, token.NEQ:
		x.expr(st, e.X, func(st *State, a Term) {
			x.expr(st, e.Y, func(st *State, b Term) {
				eq := x.eqTerm(st, a, b)
				if e.Op == token.NEQ {
					eq = sNot(eq)
				}
				k(st, tBool(eq))
			})
		})
	case token.LSS, token.LEQ, token.GTR, token.GEQ:
		ops := map[token.Token]string{token.LSS: "<", token.LEQ: "<=", token.GTR: ">", token.GEQ: ">="}
		x.expr(st, e.X, func(st *State, a Term) {
			x.expr(st, e.Y, func(st *State, b Term) {
				if a.Sort != "Int" {
					x.undecide("ordered comparison on %s at %s", a.Sort, x.prog.pos(e))
					return
				}
				k(st, tBool(fmt.Sprintf("(%s %s %s)", ops[e.Op], a.S, b.S)))
			})
		})
	case token.ADD, token.SUB, token.MUL, token.QUO, token.REM:
		x.expr(st, e.X, func(st *State, a Term) {
			x.expr(st, e.Y, func(st *State, b Term) {
				r := x.arith(st, e.Op, a, b, e)
				r.T = x.info.TypeOf(e)
				k(st, r)
			})
		})
	case token.AND:
		// bit test used as flags: uninterpreted
		x.expr(st, e.X, func(st *State, a Term) {
			x.expr(st, e.Y, func(st *State, b Term) {
				f := x.d.fun("bitand", []string{"Int", "Int"}, "Int")
				k(st, Term{S: fmt.Sprintf("(%s %s %s)", f, a.S, b.S), Sort: "Int", T: x.info.TypeOf(e)})
			})
		})
	default:
		x.undecide("unsupported binary operator %s at %s", e.Op, x.prog.pos(e))
	}
}

// fieldBase evaluates the object a field selection reads from, following
// embedded fields; it reports the named struct type that declares the field.
func (x *Exec) fieldBase(st *State, e *ast.SelectorExpr, sel *types.Selection, k func(st *State, base Term, named *types.Named, f *types.Var, isPtr bool)) {
	x.expr(st, e.X, func(st *State, base Term) {
		t := sel.Recv()
		idx := sel.Index()
		cur := base
		for i, fi := range idx {
			named, isPtr := derefNamed(t)
			stt := structOf(t)
			if stt == nil || named == nil {
				x.undecide("field selection on %s at %s", t, x.prog.pos(e))
				return
			}
			f := stt.Field(fi)
			if i == len(idx)-1 {
				cur.T = t
				k(st, cur, named, f, isPtr)
				return
			}
			// embedded field hop
			if isPtr {
				x.oblige(st, "no-panic", "no-panic[nil-deref]", sNot(sEq(cur.S, "nilRef")), e)
				cur = x.readField(st, fieldKeyOf(named, f), x.d.sortOf(f.Type()), cur.S)
			} else if strings.HasPrefix(cur.Sort, "S_") {
				cur = Term{S: fmt.Sprintf("(%s_%s %s)", cur.Sort, sanitizeSym(f.Name()), cur.S), Sort: x.d.sortOf(f.Type())}
			} else {
				// an embedded field of a struct value the engine keeps opaque: an uninterpreted projection, as for its other fields
				fs := x.d.sortOf(f.Type())
				fn := x.d.fun("fld_"+sanitizeSym(named.Obj().Name()+"_"+f.Name()), []string{cur.Sort}, fs)
				cur = Term{S: fmt.Sprintf("(%s %s)", fn, cur.S), Sort: fs}
			}
			t = f.Type()
		}
	})
}

func (x *Exec) selector(st *State, e *ast.SelectorExpr, k func(*State, Term)) {
	sel := x.info.Selections[e]
	if sel == nil {
		// qualified identifier
		x.ident(st, e.Sel, k)
		return
	}
	switch sel.Kind() {
	case types.FieldVal:
		x.fieldBase(st, e, sel, func(st *State, base Term, named *types.Named, f *types.Var, isPtr bool) {
			fs := x.d.sortOf(f.Type())
			if isPtr {
				x.oblige(st, "no-panic", "no-panic[nil-deref]", sNot(sEq(base.S, "nilRef")), e)
				st.assume(sNot(sEq(base.S, "nilRef")))
				t := x.readField(st, fieldKeyOf(named, f), fs, base.S)
				t.T = f.Type()
				x.ifaceWellTyped(st, t, f.Type())
				x.rigidLinkField(st, fieldKeyOf(named, f), base.S, t)
				k(st, t)
				return
			}
			if strings.HasPrefix(base.Sort, "S_") {
				k(st, Term{S: fmt.Sprintf("(%s_%s %s)", base.Sort, sanitizeSym(f.Name()), base.S), Sort: fs, T: f.Type()})
				return
			}
			if base.Sort != "" && named != nil {
				// a struct value of a type the engine keeps opaque (a dependency's struct): its fields are
				// uninterpreted projections of the value
				fn := x.d.fun("fld_"+sanitizeSym(named.Obj().Name()+"_"+f.Name()), []string{base.Sort}, fs)
				k(st, Term{S: fmt.Sprintf("(%s %s)", fn, base.S), Sort: fs, T: f.Type()})
				return
			}
			x.undecide("field of opaque struct value at %s", x.prog.pos(e))
		})
	case types.MethodVal:
		x.expr(st, e.X, func(st *State, recv Term) {
			fn := x.d.fun("methodval_"+sanitizeSym(sel.Obj().Name()), []string{recv.Sort}, "Fun")
			mv := fmt.Sprintf("(%s %s)", fn, recv.S)
			st.assume(sNot(sEq(mv, "nilF")))
			k(st, Term{S: mv, Sort: "Fun", T: x.info.TypeOf(e)})
		})
	default:
		x.undecide("unsupported selection at %s", x.prog.pos(e))
	}
}

func (x *Exec) index(st *State, e *ast.IndexExpr, k func(*State, Term)) {
	xt := x.info.TypeOf(e.X)
	if _, ok := xt.(*types.Signature); ok {
		// generic function instantiation used as a value
		x.expr(st, e.X, k)
		return
	}
	switch u := xt.Underlying().(type) {
	case *types.Slice:
		x.expr(st, e.X, func(st *State, sl Term) {
			x.expr(st, e.Index, func(st *State, idx Term) {
				es := x.d.sortOf(u.Elem())
				x.oblige(st, "no-panic", "no-panic[index]", fmt.Sprintf("(and (<= 0 %s) (< %s (s_len %s)))", idx.S, idx.S, sl.S), e)
				st.assume(fmt.Sprintf("(and (<= 0 %s) (< %s (s_len %s)))", idx.S, idx.S, sl.S))
				t := x.readElem(st, es, sl, idx.S)
				t.T = u.Elem()
				x.ifaceWellTyped(st, t, u.Elem())
				x.rigidLinkElem(st, sl, idx.S, t)
				k(st, t)
			})
		})
	case *types.Map:
		x.expr(st, e.X, func(st *State, m Term) {
			x.expr(st, e.Index, func(st *State, key Term) {
				v, _ := x.mapGet(st, m, key, u.Elem())
				k(st, v)
			})
		})
	case *types.Basic:
		if u.Info()&types.IsString != 0 {
			x.expr(st, e.X, func(st *State, s Term) {
				x.expr(st, e.Index, func(st *State, idx Term) {
					x.oblige(st, "no-panic", "no-panic[index]", fmt.Sprintf("(and (<= 0 %s) (< %s (slen %s)))", idx.S, idx.S, s.S), e)
					f := x.d.fun("strbyte", []string{"StrId", "Int"}, "Int")
					bt := fmt.Sprintf("(%s (sbase %s) (+ (soff %s) %s))", f, s.S, s.S, idx.S)
					st.assume(fmt.Sprintf("(and (<= 0 %s) (<= %s 255))", bt, bt))
					if _, ok := x.d.sigs["decr"]; ok {
						// UTF-8 (trusted): a byte below 0x80 at a rune start decodes to itself with width 1
						pos := fmt.Sprintf("(+ (soff %s) %s)", s.S, idx.S)
						end := fmt.Sprintf("(+ (soff %s) (slen %s))", s.S, s.S)
						st.assume(fmt.Sprintf("(=> (< %s 128) (and (= (decr (sbase %s) %s %s) %s) (= (decw (sbase %s) %s %s) 1)))", bt, s.S, pos, end, bt, s.S, pos, end))
						st.assume(fmt.Sprintf("(=> (>= %s 128) (not (= (decr (sbase %s) %s %s) %s)))", bt, s.S, pos, end, bt))
						x.assumed["UTF-8 (trusted): a byte < 0x80 at a rune start decodes to itself with width 1; a byte >= 0x80 never decodes to its own value"] = true
					}
					k(st, Term{S: bt, Sort: "Int", T: types.Typ[types.Byte]})
				})
			})
			return
		}
		x.undecide("unsupported index at %s", x.prog.pos(e))
	default:
		x.undecide("unsupported index on %s at %s", xt, x.prog.pos(e))
	}
}

func (x *Exec) mapGet(st *State, m, key Term, vt types.Type) (Term, Term) {
	vs := x.d.sortOf(vt)
	name := "mapget_" + sanitizeSym(key.Sort) + "_" + sanitizeSym(vs)
	has := "maphas_" + sanitizeSym(key.Sort)
	ver := x.fieldVer(st, "mapver", "Int")
	_ = ver
	x.d.fun(name, []string{"Ref", key.Sort}, vs)
	x.d.fun(has, []string{"Ref", key.Sort}, "Bool")
	ok := fmt.Sprintf("(%s %s %s)", has, m.S, key.S)
	z := x.d.zeroOf(vt)
	v := Term{S: sIte(ok, fmt.Sprintf("(%s %s %s)", name, m.S, key.S), z.S), Sort: vs, T: vt}
	return v, tBool(ok)
}

func (x *Exec) chanRecv(st *State, ch Term, et types.Type) (Term, Term) {
	es := x.d.sortOf(et)
	w := x.world(st)
	fv := x.d.fun("recv_val_"+sanitizeSym(es), []string{"Ref", "World"}, es)
	fo := x.d.fun("recv_ok", []string{"Ref", "World"}, "Bool")
	fw := x.d.fun("recv_world", []string{"Ref", "World"}, "World")
	x.assumed["channel receive is an uninterpreted transition of the ghost world (recv_val/recv_ok/recv_world); a closed channel yields the zero value"] = true
	v := Term{S: fmt.Sprintf("(%s %s %s)", fv, ch.S, w.S), Sort: es, T: et}
	ok := tBool(fmt.Sprintf("(%s %s %s)", fo, ch.S, w.S))
	st.assume(sImp(sNot(ok.S), sEq(v.S, x.d.zeroOf(et).S)))
	st.ghost["W"] = Term{S: fmt.Sprintf("(%s %s %s)", fw, ch.S, w.S), Sort: "World"}
	return v, ok
}

func (x *Exec) world(st *State) Term {
	if w, ok := st.ghost["W"]; ok {
		return w
	}
	w := Term{S: x.d.constant("W0", "World"), Sort: "World"}
	st.ghost["W"] = w
	x.entry.ghost["W"] = w
	return w
}

func (x *Exec) sliceExpr(st *State, e *ast.SliceExpr, k func(*State, Term)) {
	x.expr(st, e.X, func(st *State, base Term) {
		evalOpt := func(st *State, oe ast.Expr, def string, k2 func(*State, string)) {
			if oe == nil {
				k2(st, def)
				return
			}
			x.expr(st, oe, func(st *State, t Term) { k2(st, t.S) })
		}
		switch base.Sort {
		case "Slice":
			evalOpt(st, e.Low, "0", func(st *State, lo string) {
				evalOpt(st, e.High, "(s_len "+base.S+")", func(st *State, hi string) {
					x.oblige(st, "no-panic", "no-panic[slice-bounds]", fmt.Sprintf("(and (<= 0 %s) (<= %s %s) (<= %s (s_cap %s)))", lo, lo, hi, hi, base.S), e)
					r := Term{S: fmt.Sprintf("(mkSlice (s_base %s) (+ (s_off %s) %s) (- %s %s) (- (s_cap %s) %s))", base.S, base.S, lo, hi, lo, base.S, lo), Sort: "Slice", T: x.info.TypeOf(e)}
					k(st, r)
				})
			})
		case "Str":
			evalOpt(st, e.Low, "0", func(st *State, lo string) {
				evalOpt(st, e.High, "(slen "+base.S+")", func(st *State, hi string) {
					x.oblige(st, "no-panic", "no-panic[slice-bounds]", fmt.Sprintf("(and (<= 0 %s) (<= %s %s) (<= %s (slen %s)))", lo, lo, hi, hi, base.S), e)
					r := Term{S: fmt.Sprintf("(mkStr (sbase %s) (+ (soff %s) %s) (- %s %s))", base.S, base.S, lo, hi, lo), Sort: "Str", T: x.info.TypeOf(e)}
					k(st, r)
				})
			})
		default:
			x.undecide("unsupported slice expression on %s at %s", base.Sort, x.prog.pos(e))
		}
	})
}

// newSlice builds a fresh slice holding vals.
func (x *Exec) newSlice(st *State, elemSort string, vals []string) Term {
	if len(vals) == 0 {
		return Term{S: "nilSlice", Sort: "Slice"}
	}
	base := x.alloc(st, "arr")
	key := elemKey(elemSort)
	v := x.fieldVer(st, key, "(Array Int "+elemSort+")")
	arr := fmt.Sprintf("(select %s %s)", v.term, base.S)
	for i, val := range vals {
		arr = fmt.Sprintf("(store %s %d %s)", arr, i, val)
	}
	x.writeField(st, key, "(Array Int "+elemSort+")", base.S, arr)
	return Term{S: fmt.Sprintf("(mkSlice %s 0 %d %d)", base.S, len(vals), len(vals)), Sort: "Slice"}
}

func (x *Exec) composite(st *State, e *ast.CompositeLit, addr bool, k func(*State, Term)) {
	t := x.info.TypeOf(e)
	switch u := t.Underlying().(type) {
	case *types.Struct:
		named, _ := types.Unalias(t).(*types.Named)
		vals := make([]Term, u.NumFields())
		for i := range vals {
			vals[i] = x.d.zeroOf(u.Field(i).Type())
		}
		var elts []ast.Expr
		var idxs []int
		for i, el := range e.Elts {
			if kv, ok := el.(*ast.KeyValueExpr); ok {
				name := kv.Key.(*ast.Ident).Name
				for j := 0; j < u.NumFields(); j++ {
					if u.Field(j).Name() == name {
						idxs = append(idxs, j)
					}
				}
				elts = append(elts, kv.Value)
			} else {
				idxs = append(idxs, i)
				elts = append(elts, el)
			}
		}
		x.exprList(st, elts, func(st *State, vs []Term) {
			for i, v := range vs {
				vals[idxs[i]] = x.conv(st, v, u.Field(idxs[i]).Type())
			}
			if addr {
				if named == nil {
					x.undecide("address of anonymous struct literal at %s", x.prog.pos(e))
					return
				}
				r := x.alloc(st, "new_"+named.Obj().Name())
				st.ghost["new:"+named.Obj().Name()] = r
				for i := 0; i < u.NumFields(); i++ {
					f := u.Field(i)
					so := x.d.sortOf(f.Type())
					if so == "OpaqueArray" || so == "Unknown" || so == "Tuple" {
						continue
					}
					x.writeField(st, fieldKeyOf(named, f), so, r.S, vals[i].S)
				}
				r.T = types.NewPointer(t)
				k(st, r)
				return
			}
			so := x.d.sortOf(t)
			if so == "Unit" {
				k(st, Term{S: "unit", Sort: "Unit", T: t})
				return
			}
			if !strings.HasPrefix(so, "S_") {
				x.undecide("literal of opaque struct %s at %s", t, x.prog.pos(e))
				return
			}
			var as []string
			for _, v := range vals {
				as = append(as, v.S)
			}
			k(st, Term{S: "(mk_" + so + " " + strings.Join(as, " ") + ")", Sort: so, T: t})
		})
	case *types.Slice:
		es := x.d.sortOf(u.Elem())
		x.exprList(st, e.Elts, func(st *State, vs []Term) {
			var ss []string
			for _, v := range vs {
				ss = append(ss, x.conv(st, v, u.Elem()).S)
			}
			r := x.newSlice(st, es, ss)
			r.T = t
			if addr {
				p := x.alloc(st, "slicecell")
				x.writeField(st, "cell:Slice", "Slice", p.S, r.S)
				p.T = types.NewPointer(t)
				k(st, p)
				return
			}
			k(st, r)
		})
	case *types.Map:
		if len(e.Elts) != 0 {
			x.undecide("non-empty map literal at %s", x.prog.pos(e))
			return
		}
		r := x.alloc(st, "map")
		r.T = t
		k(st, r)
	default:
		x.undecide("unsupported composite literal %s at %s", t, x.prog.pos(e))
	}
}

// runDefers runs the deferred literals of the function that is returning (those registered at the
// current inlining depth), last first, then continues with k.
func (x *Exec) runDefers(st *State, k func(*State)) {
	for i := len(st.defers) - 1; i >= 0; i-- {
		if st.defers[i].depth == st.depth {
			lit := st.defers[i].lit
			st.defers = append(append([]deferRec(nil), st.defers[:i]...), st.defers[i+1:]...)
			u := x.prog.UnitOfLit[lit]
			if u == nil {
				x.undecide("deferred literal without unit at %s", x.prog.pos(lit))
				return
			}
			x.inlineCall(st, u, nil, nil, func(st *State, _ []Term) { x.runDefers(st, k) })
			return
		}
	}
	k(st)
}

// noteLoopApprox: a loop that assigns variables or writes the heap and has no invariant is executed with the invariant
// `true`; whatever follows it on the path is an over-approximation, so a `sat` there is a failed proof, not a counterexample.
func (x *Exec) noteLoopApprox(st *State, s ast.Stmt, spec *LoopSpec) {
	if spec != nil && len(spec.Invs) > 0 {
		return
	}
	vars, heap := x.assignedIn(s)
	if len(vars) == 0 && !heap {
		return
	}
	if st.approx == "" {
		st.approx = "loop without invariant at " + x.prog.pos(s)
	}
}
