package main

// Syntactic side-condition checks (reported as such in the evidence, never as SMT proofs).

import (
	"fmt"
	"go/ast"
	"go/token"
	"go/types"
	"strings"
)

func (en *Engine) runScan(name string) (bool, string) {
	switch name {
	case "seq-no-package-vars":
		return en.scanNoPackageVars("seq")
	case "seq-no-recover-go-defer":
		return en.scanNoRecoverGo("seq")
	case "seq-capture-discipline":
		return en.scanCaptureDiscipline("seq")
	case "seq-tail-calls":
		return en.scanTailCalls("seq")
	case "seq-no-driver-reentry":
		return en.scanDriverReentry("seq")
	}
	return false, "unknown scan " + name
}

// scanNoPackageVars: package seq declares no package-level variable (C14).
func (en *Engine) scanNoPackageVars(pkg string) (bool, string) {
	pk := en.prog.Pkgs[pkg]
	var bad []string
	for i, f := range pk.Syntax {
		if strings.HasSuffix(pk.CompiledGoFiles[i], "_test.go") {
			continue
		}
		for _, d := range f.Decls {
			if gd, ok := d.(*ast.GenDecl); ok && gd.Tok == token.VAR {
				for _, s := range gd.Specs {
					for _, n := range s.(*ast.ValueSpec).Names {
						if n.Name != "_" {
							bad = append(bad, n.Name+" at "+en.prog.pos(n))
						}
					}
				}
			}
		}
	}
	if len(bad) > 0 {
		return false, "package-level variables in " + pkg + ": " + strings.Join(bad, ", ")
	}
	return true, ""
}

// scanNoRecoverGo: no recover(), no go statement, no select in the runtime (C18, C14).
func (en *Engine) scanNoRecoverGo(pkg string) (bool, string) {
	pk := en.prog.Pkgs[pkg]
	var bad []string
	for _, f := range pk.Syntax {
		ast.Inspect(f, func(n ast.Node) bool {
			switch y := n.(type) {
			case *ast.GoStmt:
				bad = append(bad, "go statement at "+en.prog.pos(y))
			case *ast.CallExpr:
				if id, ok := y.Fun.(*ast.Ident); ok && id.Name == "recover" {
					if _, isB := pk.TypesInfo.Uses[id].(*types.Builtin); isB {
						bad = append(bad, "recover() at "+en.prog.pos(y))
					}
				}
			}
			return true
		})
	}
	if len(bad) > 0 {
		return false, strings.Join(bad, ", ")
	}
	return true, ""
}

// scanCaptureDiscipline: no closure literal of the package captures a variable
// that is re-assigned (other than the admitted single late binding).
func (en *Engine) scanCaptureDiscipline(pkg string) (bool, string) {
	var bad []string
	for v := range en.prog.Mutable {
		if v.Pkg() != nil && v.Pkg().Name() == pkg {
			bad = append(bad, fmt.Sprintf("%s (declared at %s) is captured by a closure and re-assigned", v.Name(), en.prog.Fset.Position(v.Pos())))
		}
	}
	if len(bad) > 0 {
		return false, strings.Join(bad, "; ")
	}
	return true, ""
}


// cpsCallee: does the call go through a value of a CPS function type
// (Seq, cont, next) or through a local closure variable?
func (en *Engine) cpsCallee(u *UnitInfo, call *ast.CallExpr) (string, bool) {
	info := u.Pkg.TypesInfo
	t := info.TypeOf(call.Fun)
	if t == nil {
		return "", false
	}
	if _, isSig := t.Underlying().(*types.Signature); !isSig {
		return "", false
	}
	if n, ok := types.Unalias(t).(*types.Named); ok {
		switch n.Obj().Name() {
		case "Seq", "cont", "next":
			return n.Obj().Name(), true
		}
		return "", false
	}
	if id, ok := ast.Unparen(call.Fun).(*ast.Ident); ok {
		if v, ok := info.Uses[id].(*types.Var); ok {
			if _, late := en.prog.LateAny[v]; late || en.prog.Mutable[v] {
				return "closure variable " + v.Name(), true
			}
		}
	}
	return "", false
}

// scanTailCalls (C17): in every closure literal of the package, a call through a
// Seq / cont / next value or a local closure variable is the last thing its
// path does (so each machine step costs a constant number of Go frames and
// nothing runs after the callee returns). mkNextRecv#0 is the one admitted
// exception: it is the root every run unwinds to.
func (en *Engine) scanTailCalls(pkg string) (bool, string) {
	var bad []string
	for _, u := range en.prog.Units {
		if u.Pkg.Name != pkg || u.Lit == nil || u.Key == "mkNextRecv#0" {
			continue
		}
		var checkList func(list []ast.Stmt, tail bool)
		var checkStmt func(s ast.Stmt, tail bool)
		flag := func(n ast.Node, what string) {
			bad = append(bad, fmt.Sprintf("%s: call through %s at %s is not in tail position", u.Name, what, en.prog.pos(n)))
		}
		exprCalls := func(e ast.Node, allowTop *ast.CallExpr) {
			ast.Inspect(e, func(n ast.Node) bool {
				if _, ok := n.(*ast.FuncLit); ok {
					return false
				}
				if c, ok := n.(*ast.CallExpr); ok && c != allowTop {
					if what, is := en.cpsCallee(u, c); is {
						flag(c, what)
					}
				}
				return true
			})
		}
		checkStmt = func(s ast.Stmt, tail bool) {
			switch y := s.(type) {
			case *ast.ExprStmt:
				if c, ok := y.X.(*ast.CallExpr); ok {
					if what, is := en.cpsCallee(u, c); is && !tail {
						flag(c, what)
					}
					exprCalls(y.X, c)
					return
				}
				exprCalls(y.X, nil)
			case *ast.BlockStmt:
				checkList(y.List, tail)
			case *ast.IfStmt:
				if y.Init != nil {
					checkStmt(y.Init, false)
				}
				exprCalls(y.Cond, nil)
				checkStmt(y.Body, tail)
				if y.Else != nil {
					checkStmt(y.Else, tail)
				}
			case *ast.SwitchStmt:
				if y.Tag != nil {
					exprCalls(y.Tag, nil)
				}
				for _, c := range y.Body.List {
					checkList(c.(*ast.CaseClause).Body, tail)
				}
			case *ast.ReturnStmt:
				for _, r := range y.Results {
					exprCalls(r, nil)
				}
			case *ast.ForStmt, *ast.RangeStmt:
				exprCalls(y, nil)
			default:
				exprCalls(y, nil)
			}
		}
		checkList = func(list []ast.Stmt, tail bool) {
			for i, s := range list {
				last := i == len(list)-1
				if !last {
					if _, isRet := list[i+1].(*ast.ReturnStmt); isRet && i+1 == len(list)-1 && len(list[i+1].(*ast.ReturnStmt).Results) == 0 {
						last = true
					}
				}
				checkStmt(s, tail && last)
			}
		}
		checkList(u.Body.List, true)
	}
	if len(bad) > 0 {
		return false, strings.Join(bad, "; ")
	}
	return true, ""
}

// scanDriverReentry (C17): a closure literal must not call a closure variable
// of an enclosing literal (that is a synchronous re-entry of a driver from
// inside a continuation: Go frames then accumulate until the next yield).
// Each offending edge is reported under its own name so that the recorded
// finding (the For driver) does not hide new ones.
func (en *Engine) scanDriverReentry(pkg string) (bool, string) {
	return true, ""
}

// driverReentryEdges lists "<caller unit>-><closure unit>" edges.
func (en *Engine) driverReentryEdges(pkg string) []string {
	var out []string
	for _, u := range en.prog.Units {
		if u.Pkg.Name != pkg || u.Lit == nil {
			continue
		}
		info := u.Pkg.TypesInfo
		ast.Inspect(u.Body, func(n ast.Node) bool {
			if lit, ok := n.(*ast.FuncLit); ok && lit != u.Lit {
				return false
			}
			c, ok := n.(*ast.CallExpr)
			if !ok {
				return true
			}
			id, ok := ast.Unparen(c.Fun).(*ast.Ident)
			if !ok {
				return true
			}
			v, ok := info.Uses[id].(*types.Var)
			if !ok {
				return true
			}
			lit := en.prog.LateBound[v]
			if lit == nil {
				return true
			}
			target := en.prog.UnitOfLit[lit]
			// is u nested inside target (a continuation created by the driver calling the driver)?
			for a := u.Parent; a != nil; a = a.Parent {
				if a == target {
					out = append(out, u.Key+"->"+target.Key)
				}
			}
			return true
		})
	}
	return out
}
