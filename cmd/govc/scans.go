package main

// Syntactic side-condition checks (reported as such in the evidence, never as SMT proofs).

import (
	"fmt"
	"go/ast"
	"go/printer"
	"go/token"
	"go/types"
	"io"
	"sort"
	"strings"
)

func printerFprint(w io.Writer, fset *token.FileSet, n any) error { return printer.Fprint(w, fset, n) }

func (en *Engine) runScan(name string) (bool, string) {
	switch name {
	case "seq-no-package-vars":
		return en.scanNoPackageVars("seq")
	case "seq-no-recover-go-defer":
		return en.scanNoRecoverGo("seq")
	case "seq-capture-discipline":
		return en.scanCaptureDiscipline("seq")
	case "rw-delay-elision":
		return en.scanDelayElision()
	case "rw-eta-guard":
		return en.scanEtaGuard()
	case "rw-symcnt-frame":
		return en.scanSymCnt()
	case "rw-per-file-rewriter":
		return en.scanPerFileRewriter()
	case "rw-no-package-state":
		return en.scanRewriterPackageState()
	case "rw-no-map-iteration":
		return en.scanNoMapIteration()
	case "seq-tail-calls":
		return en.scanTailCalls("seq")
	case "seq-no-driver-reentry":
		return en.scanDriverReentry("seq")
	case "seq-no-static-recursion":
		return en.scanStaticRecursion("seq")
	}
	return false, "unknown scan " + name
}

// scanNoPackageVars: package seq declares no package-level variable (C14).
func (en *Engine) scanNoPackageVars(pkg string) (bool, string) {
	pk := en.prog.Pkgs[pkg]
	var bad []string
	for i, f := range pk.Syntax {
		if strings.HasSuffix(pk.CompiledGoFiles[i], "_test.go") {
			continue
		}
		for _, d := range f.Decls {
			if gd, ok := d.(*ast.GenDecl); ok && gd.Tok == token.VAR {
				for _, s := range gd.Specs {
					for _, n := range s.(*ast.ValueSpec).Names {
						if n.Name != "_" {
							bad = append(bad, n.Name+" at "+en.prog.pos(n))
						}
					}
				}
			}
		}
	}
	if len(bad) > 0 {
		return false, "package-level variables in " + pkg + ": " + strings.Join(bad, ", ")
	}
	return true, ""
}

// scanNoRecoverGo: no recover(), no go statement, no select in the runtime (C18, C14).
func (en *Engine) scanNoRecoverGo(pkg string) (bool, string) {
	pk := en.prog.Pkgs[pkg]
	var bad []string
	for _, f := range pk.Syntax {
		ast.Inspect(f, func(n ast.Node) bool {
			switch y := n.(type) {
			case *ast.GoStmt:
				bad = append(bad, "go statement at "+en.prog.pos(y))
			case *ast.CallExpr:
				if id, ok := y.Fun.(*ast.Ident); ok && id.Name == "recover" {
					if _, isB := pk.TypesInfo.Uses[id].(*types.Builtin); isB {
						bad = append(bad, "recover() at "+en.prog.pos(y))
					}
				}
			}
			return true
		})
	}
	if len(bad) > 0 {
		return false, strings.Join(bad, ", ")
	}
	return true, ""
}

// scanCaptureDiscipline: no closure literal of the package captures a variable
// that is re-assigned (other than the admitted single late binding).
func (en *Engine) scanCaptureDiscipline(pkg string) (bool, string) {
	var bad []string
	for v := range en.prog.Mutable {
		if v.Pkg() != nil && v.Pkg().Name() == pkg {
			bad = append(bad, fmt.Sprintf("%s (declared at %s) is captured by a closure and re-assigned", v.Name(), en.prog.Fset.Position(v.Pos())))
		}
	}
	if len(bad) > 0 {
		return false, strings.Join(bad, "; ")
	}
	return true, ""
}

// cpsCallee: does the call go through a value of a CPS function type
// (Seq, cont, next) or through a local closure variable?
func (en *Engine) cpsCallee(u *UnitInfo, call *ast.CallExpr) (string, bool) {
	info := u.Pkg.TypesInfo
	t := info.TypeOf(call.Fun)
	if t == nil {
		return "", false
	}
	if _, isSig := t.Underlying().(*types.Signature); !isSig {
		return "", false
	}
	if n, ok := types.Unalias(t).(*types.Named); ok {
		switch n.Obj().Name() {
		case "Seq", "cont", "next":
			return n.Obj().Name(), true
		}
		return "", false
	}
	if id, ok := ast.Unparen(call.Fun).(*ast.Ident); ok {
		if v, ok := info.Uses[id].(*types.Var); ok {
			if _, late := en.prog.LateAny[v]; late || en.prog.Mutable[v] {
				return "closure variable " + v.Name(), true
			}
		}
	}
	return "", false
}

// scanTailCalls (C17): in every closure literal of the package, a call through a
// Seq / cont / next value or a local closure variable is the last thing its
// path does (so each machine step costs a constant number of Go frames and
// nothing runs after the callee returns). mkNextRecv#0 is the one admitted
// exception: it is the root every run unwinds to.
func (en *Engine) scanTailCalls(pkg string) (bool, string) {
	var bad []string
	for _, u := range en.prog.Units {
		if u.Pkg.Name != pkg || u.Lit == nil || isDriverLit(u) {
			continue
		}
		var checkList func(list []ast.Stmt, tail bool)
		var checkStmt func(s ast.Stmt, tail bool)
		flag := func(n ast.Node, what string) {
			bad = append(bad, fmt.Sprintf("%s: call through %s at %s is not in tail position", u.Name, what, en.prog.pos(n)))
		}
		exprCalls := func(e ast.Node, allowTop *ast.CallExpr) {
			ast.Inspect(e, func(n ast.Node) bool {
				if _, ok := n.(*ast.FuncLit); ok {
					return false
				}
				if c, ok := n.(*ast.CallExpr); ok && c != allowTop {
					if what, is := en.cpsCallee(u, c); is {
						flag(c, what)
					}
				}
				return true
			})
		}
		checkStmt = func(s ast.Stmt, tail bool) {
			switch y := s.(type) {
			case *ast.ExprStmt:
				if c, ok := y.X.(*ast.CallExpr); ok {
					if what, is := en.cpsCallee(u, c); is && !tail {
						flag(c, what)
					}
					exprCalls(y.X, c)
					return
				}
				exprCalls(y.X, nil)
			case *ast.BlockStmt:
				checkList(y.List, tail)
			case *ast.IfStmt:
				if y.Init != nil {
					checkStmt(y.Init, false)
				}
				exprCalls(y.Cond, nil)
				checkStmt(y.Body, tail)
				if y.Else != nil {
					checkStmt(y.Else, tail)
				}
			case *ast.SwitchStmt:
				if y.Tag != nil {
					exprCalls(y.Tag, nil)
				}
				for _, c := range y.Body.List {
					checkList(c.(*ast.CaseClause).Body, tail)
				}
			case *ast.ReturnStmt:
				for _, r := range y.Results {
					exprCalls(r, nil)
				}
			case *ast.ForStmt, *ast.RangeStmt:
				exprCalls(y, nil)
			default:
				exprCalls(y, nil)
			}
		}
		checkList = func(list []ast.Stmt, tail bool) {
			for i, s := range list {
				last := i == len(list)-1
				if !last {
					if ret, isRet := list[i+1].(*ast.ReturnStmt); isRet && len(ret.Results) == 0 {
						// followed by a bare return: nothing runs after the callee in this activation
						checkStmt(s, true)
						continue
					}
				}
				checkStmt(s, tail && last)
			}
		}
		checkList(u.Body.List, true)
	}
	if len(bad) > 0 {
		return false, strings.Join(bad, "; ")
	}
	return true, ""
}

// scanDriverReentry (C17): a closure literal must not call a closure variable
// of an enclosing literal (that is a synchronous re-entry of a driver from
// inside a continuation: Go frames then accumulate until the next yield).
// Each offending edge is reported under its own name so that the recorded
// finding (the For driver) does not hide new ones.
func (en *Engine) scanDriverReentry(pkg string) (bool, string) {
	return true, ""
}

// scanStaticRecursion (C17): no declared function or method of the package calls itself, directly or through other declared
// functions of the package (calls inside nested function literals count for the enclosing declaration). A cycle makes the
// stack depth of one step depend on data (e.g. one frame per skipped map entry); the loop driver's closure re-entry is a
// different, per-edge scan (seq-no-driver-reentry).
func (en *Engine) scanStaticRecursion(pkg string) (bool, string) {
	edges := map[*types.Func][]*types.Func{}
	var fns []*types.Func
	for fn, u := range en.prog.UnitOfFn {
		if u.Pkg.Name != pkg || u.Body == nil {
			continue
		}
		fns = append(fns, fn)
		info := u.Pkg.TypesInfo
		ast.Inspect(u.Body, func(n ast.Node) bool {
			c, ok := n.(*ast.CallExpr)
			if !ok {
				return true
			}
			var id *ast.Ident
			switch f := ast.Unparen(c.Fun).(type) {
			case *ast.Ident:
				id = f
			case *ast.SelectorExpr:
				id = f.Sel
			case *ast.IndexExpr:
				if x, ok := f.X.(*ast.Ident); ok {
					id = x
				}
			case *ast.IndexListExpr:
				if x, ok := f.X.(*ast.Ident); ok {
					id = x
				}
			}
			if id == nil {
				return true
			}
			if callee, ok := info.Uses[id].(*types.Func); ok {
				callee = callee.Origin()
				if _, mine := en.prog.UnitOfFn[callee]; mine {
					edges[fn] = append(edges[fn], callee)
				}
			}
			return true
		})
	}
	sort.Slice(fns, func(i, j int) bool { return fns[i].FullName() < fns[j].FullName() })
	state := map[*types.Func]int{}
	var stack []*types.Func
	var bad []string
	var visit func(f *types.Func)
	visit = func(f *types.Func) {
		state[f] = 1
		stack = append(stack, f)
		for _, g := range edges[f] {
			switch state[g] {
			case 0:
				visit(g)
			case 1:
				var names []string
				on := false
				for _, h := range stack {
					if h == g {
						on = true
					}
					if on {
						names = append(names, h.Name())
					}
				}
				bad = append(bad, "recursion "+strings.Join(append(names, g.Name()), " -> ")+": the stack depth of one step depends on data")
			}
		}
		stack = stack[:len(stack)-1]
		state[f] = 2
	}
	for _, f := range fns {
		if state[f] == 0 {
			visit(f)
		}
	}
	if len(bad) > 0 {
		sort.Strings(bad)
		return false, strings.Join(bad, "; ")
	}
	return true, ""
}

// driverReentryEdges lists "<caller unit>-><closure unit>" edges.
func (en *Engine) driverReentryEdges(pkg string) []string {
	var out []string
	for _, u := range en.prog.Units {
		if u.Pkg.Name != pkg || u.Lit == nil {
			continue
		}
		info := u.Pkg.TypesInfo
		ast.Inspect(u.Body, func(n ast.Node) bool {
			if lit, ok := n.(*ast.FuncLit); ok && lit != u.Lit {
				return false
			}
			c, ok := n.(*ast.CallExpr)
			if !ok {
				return true
			}
			id, ok := ast.Unparen(c.Fun).(*ast.Ident)
			if !ok {
				return true
			}
			v, ok := info.Uses[id].(*types.Var)
			if !ok {
				return true
			}
			lit := en.prog.LateBound[v]
			if lit == nil {
				return true
			}
			target := en.prog.UnitOfLit[lit]
			// is u nested inside target (a continuation created by the driver calling the driver)?
			for a := u.Parent; a != nil; a = a.Parent {
				if a == target {
					out = append(out, u.Key+"->"+target.Key)
				}
			}
			return true
		})
	}
	return out
}

func (en *Engine) funcDecl(pkg, key string) *UnitInfo { return en.prog.Units[pkg+"."+key] }

func exprText(en *Engine, e ast.Node) string {
	var b strings.Builder
	_ = printerFprint(&b, en.prog.Fset, e)
	return b.String()
}

// scanDelayElision (C02, C07, C18): Delay(func() Seq { return X }) may be replaced by X only when evaluating X early is
// unobservable: X is a call of a constructor proved effect-free whose arguments the rewriter only fills with thunks,
// nil or such constructor calls, or a Bind whose first argument is a basic literal (any literal).
func (en *Engine) scanDelayElision() (bool, string) {
	u := en.funcDecl("rewriter", "optimizer.optimizeDelayCall")
	if u == nil {
		return false, "optimizer.optimizeDelayCall not found"
	}
	info := u.Pkg.TypesInfo
	pure := map[string]bool{"Delay": true, "Combine": true, "For": true, "While": true, "Loop": true,
		"Return": true, "Normal": true, "Break": true, "Continue": true}
	constStr := func(e ast.Expr) (string, bool) {
		if tv, ok := info.Types[e]; ok && tv.Value != nil {
			return strings.Trim(tv.Value.ExactString(), "\""), true
		}
		return "", false
	}
	calleeName := func(c *ast.CallExpr) string {
		f := c.Fun
		for {
			switch y := f.(type) {
			case *ast.IndexExpr:
				f = y.X
				continue
			case *ast.IndexListExpr:
				f = y.X
				continue
			case *ast.SelectorExpr:
				return y.Sel.Name
			case *ast.Ident:
				return y.Name
			}
			return ""
		}
	}
	// the initialiser of a local identifier
	initOf := func(id *ast.Ident) ast.Expr {
		if v, ok := info.Uses[id].(*types.Var); ok {
			if e := en.prog.InitBind[v]; e != nil {
				return e
			}
		}
		return nil
	}
	isConstTrue := func(e ast.Expr) bool {
		if id, ok := e.(*ast.Ident); ok {
			e = initOf(id)
		}
		lit, _ := e.(*ast.FuncLit)
		if lit == nil || len(lit.Body.List) != 1 {
			return false
		}
		ret, _ := lit.Body.List[0].(*ast.ReturnStmt)
		return ret != nil && len(ret.Results) == 1 && exprText(en, ret.Results[0]) == "true"
	}
	var bad []string
	var whitelistVar, bindVar *types.Var
	nWhitelists := 0
	ast.Inspect(u.Body, func(n ast.Node) bool {
		as, ok := n.(*ast.AssignStmt)
		if !ok || len(as.Lhs) != 1 || len(as.Rhs) != 1 || as.Tok != token.DEFINE {
			return true
		}
		lhs, _ := as.Lhs[0].(*ast.Ident)
		call, _ := as.Rhs[0].(*ast.CallExpr)
		if lhs == nil || call == nil {
			return true
		}
		lv, _ := info.Defs[lhs].(*types.Var)
		// the whitelist: <var> := calleeOf(<constant names>...)
		if calleeName(call) == "calleeOf" {
			nWhitelists++
			whitelistVar = lv
			for _, a := range call.Args {
				name, ok := constStr(a)
				if !ok || !pure[name] {
					bad = append(bad, "Delay-elision whitelist contains "+exprText(en, a)+", which is not a constructor proved effect-free with thunk-only arguments")
				}
			}
			return true
		}
		// the Bind case: a pattern built around FuncCallee(.., cstBind) and a call pattern whose first argument pattern is
		// matcher.MkPattern[BasicLitPattern](m, <constant-true predicate>)
		mentionsBind := false
		ast.Inspect(call, func(m ast.Node) bool {
			if c2, ok := m.(*ast.CallExpr); ok && calleeName(c2) == "FuncCallee" && len(c2.Args) == 3 {
				if name, ok := constStr(c2.Args[2]); ok && name == "Bind" {
					mentionsBind = true
				}
			}
			return true
		})
		if !mentionsBind {
			return true
		}
		bindVar = lv
		okFirst := false
		ast.Inspect(call, func(m ast.Node) bool {
			cl, ok := m.(*ast.CompositeLit)
			if !ok || exprText(en, cl.Type) != "ast.CallExpr" {
				return true
			}
			for _, el := range cl.Elts {
				kv, ok := el.(*ast.KeyValueExpr)
				if !ok || exprText(en, kv.Key) != "Args" {
					continue
				}
				args, _ := kv.Value.(*ast.CompositeLit)
				if args == nil || len(args.Elts) != 2 {
					continue
				}
				first, _ := args.Elts[0].(*ast.CallExpr)
				if first == nil || calleeName(first) != "MkPattern" || len(first.Args) != 2 {
					continue
				}
				if ix, ok := first.Fun.(*ast.IndexExpr); ok && exprText(en, ix.Index) == "BasicLitPattern" && isConstTrue(first.Args[1]) {
					okFirst = true
				}
			}
			return true
		})
		if !okFirst {
			bad = append(bad, "the Bind case of the Delay-elision rule no longer restricts Bind's first argument to a basic literal (MkPattern[BasicLitPattern] with the constant-true predicate): "+trunc(strings.Join(strings.Fields(exprText(en, call)), " "), 300))
		}
		return true
	})
	if nWhitelists != 1 {
		bad = append(bad, fmt.Sprintf("expected exactly one whitelist built with calleeOf(...), found %d", nWhitelists))
	}
	// Bind(m, "return", Or(m, <whitelist>, <literal-Bind>)) and the callback replaces by ctx.Binds["return"]
	okOr, okReplace := false, false
	isReturnBind := func(e ast.Expr) bool {
		if ta, ok := e.(*ast.TypeAssertExpr); ok {
			e = ta.X
		}
		ix, ok := e.(*ast.IndexExpr)
		if !ok {
			return false
		}
		name, ok := constStr(ix.Index)
		return ok && name == "return" && strings.HasSuffix(exprText(en, ix.X), ".Binds")
	}
	returnVars := map[*types.Var]bool{}
	ast.Inspect(u.Body, func(n ast.Node) bool {
		if as, ok := n.(*ast.AssignStmt); ok && as.Tok == token.DEFINE && len(as.Lhs) == 1 && len(as.Rhs) == 1 && isReturnBind(as.Rhs[0]) {
			if id, ok := as.Lhs[0].(*ast.Ident); ok {
				if v, ok := info.Defs[id].(*types.Var); ok {
					returnVars[v] = true
				}
			}
		}
		return true
	})
	ast.Inspect(u.Body, func(n ast.Node) bool {
		c, ok := n.(*ast.CallExpr)
		if !ok {
			return true
		}
		if calleeName(c) == "Bind" && len(c.Args) == 3 {
			if name, ok := constStr(c.Args[1]); ok && name == "return" {
				if or, ok := c.Args[2].(*ast.CallExpr); ok && calleeName(or) == "Or" && len(or.Args) == 3 {
					got := map[*types.Var]bool{}
					for _, a := range or.Args[1:] {
						if id, ok := a.(*ast.Ident); ok {
							if v, ok := info.Uses[id].(*types.Var); ok {
								got[v] = true
							}
						}
					}
					okOr = whitelistVar != nil && bindVar != nil && got[whitelistVar] && got[bindVar]
				}
			}
		}
		if calleeName(c) == "Replace" && len(c.Args) == 1 {
			if isReturnBind(c.Args[0]) {
				okReplace = true
			}
			// or a local bound once to (a type assertion of) the binding: `call := ctx.Binds["return"].(*ast.CallExpr)`
			if id, ok := c.Args[0].(*ast.Ident); ok {
				if v, ok := info.Uses[id].(*types.Var); ok && returnVars[v] {
					okReplace = true
				}
			}
		}
		return true
	})
	if !okOr {
		bad = append(bad, "the Delay-elision pattern is not Or(whitelist, literal-Bind) under the bound \"return\"")
	}
	if !okReplace {
		bad = append(bad, "the Delay-elision callback does not replace the match by the bound \"return\" expression")
	}
	if len(bad) > 0 {
		return false, strings.Join(bad, "; ")
	}
	return true, ""
}

// scanEtaGuard (C07, C13): the eta-reduction callback replaces only under matched(...) && stableCallee(...).
func (en *Engine) scanEtaGuard() (bool, string) {
	u := en.funcDecl("rewriter", "optimizer.etaReduction#1")
	if u == nil {
		return false, "optimizer.etaReduction#1 (the match callback) not found"
	}
	var bad []string
	nReplace := 0
	var walk func(n ast.Node, guarded bool)
	walk = func(n ast.Node, guarded bool) {
		ast.Inspect(n, func(m ast.Node) bool {
			switch y := m.(type) {
			case *ast.IfStmt:
				g := guarded || etaGuardCond(y.Cond)
				walk(y.Body, g)
				if y.Else != nil {
					walk(y.Else, guarded)
				}
				return false
			case *ast.CallExpr:
				if sel, ok := y.Fun.(*ast.SelectorExpr); ok && sel.Sel.Name == "Replace" {
					nReplace++
					if !guarded {
						bad = append(bad, "c.Replace at "+en.prog.pos(y)+" is not guarded by matched(ctx, params, args) && stableCallee(ctx, ...)")
					}
					if !strings.HasSuffix(exprText(en, y.Args[0]), ".Binds[\"fun\"]") {
						bad = append(bad, "the literal is replaced by "+exprText(en, y.Args[0])+", not by the bound callee")
					}
				}
			}
			return true
		})
	}
	walk(u.Body, false)
	if nReplace != 1 {
		bad = append(bad, fmt.Sprintf("expected one Replace in the eta-reduction callback, found %d", nReplace))
	}
	if len(bad) > 0 {
		return false, strings.Join(bad, "; ")
	}
	return true, ""
}

// etaGuardCond: the condition is a conjunction (no ||) that calls both matched(...) and stableCallee(...).
func etaGuardCond(e ast.Expr) bool {
	var conj []ast.Expr
	var flat func(e ast.Expr) bool
	flat = func(e ast.Expr) bool {
		switch y := ast.Unparen(e).(type) {
		case *ast.BinaryExpr:
			if y.Op == token.LAND {
				return flat(y.X) && flat(y.Y)
			}
			if y.Op == token.LOR {
				return false
			}
		}
		conj = append(conj, e)
		return true
	}
	if !flat(e) {
		return false
	}
	has := map[string]bool{}
	for _, c := range conj {
		if call, ok := ast.Unparen(c).(*ast.CallExpr); ok {
			if id, ok := call.Fun.(*ast.Ident); ok {
				has[id.Name] = true
			}
		}
	}
	return has["matched"] && has["stableCallee"]
}

// scanSymCnt (C15): the unique-name counter is written only by gensym.
func (en *Engine) scanSymCnt() (bool, string) {
	var bad []string
	for _, u := range en.prog.Units {
		if u.Pkg.Name != "rewriter" || u.Lit != nil {
			continue
		}
		ast.Inspect(u.Body, func(n ast.Node) bool {
			var target ast.Expr
			switch y := n.(type) {
			case *ast.AssignStmt:
				for _, l := range y.Lhs {
					if sel, ok := l.(*ast.SelectorExpr); ok && sel.Sel.Name == "symCnt" {
						target = l
					}
				}
			case *ast.IncDecStmt:
				if sel, ok := y.X.(*ast.SelectorExpr); ok && sel.Sel.Name == "symCnt" {
					target = y.X
				}
			case *ast.KeyValueExpr:
				if id, ok := y.Key.(*ast.Ident); ok && id.Name == "symCnt" {
					target = y.Key
				}
			}
			if target != nil && u.Key != "yieldRewriter.gensym" {
				bad = append(bad, "symCnt written in "+u.Name+" at "+en.prog.pos(target))
			}
			return true
		})
	}
	if len(bad) > 0 {
		return false, strings.Join(bad, "; ")
	}
	return true, ""
}

// scanPerFileRewriter (C15): a fresh yieldRewriter (hence a fresh counter) is made once per file:
// the only construction site is mkYieldRewriter, whose only call site is rewriteFile, outside any loop.
func (en *Engine) scanPerFileRewriter() (bool, string) {
	var bad []string
	nCalls := 0
	for _, u := range en.prog.Units {
		if u.Pkg.Name != "rewriter" {
			continue
		}
		if u.Lit != nil {
			// literals are visited through their enclosing declaration
			continue
		}
		var stack []ast.Node
		ast.Inspect(u.Body, func(n ast.Node) bool {
			if n == nil {
				stack = stack[:len(stack)-1]
				return true
			}
			stack = append(stack, n)
			switch y := n.(type) {
			case *ast.CompositeLit:
				if exprText(en, y.Type) == "yieldRewriter" && u.Key != "mkYieldRewriter" {
					bad = append(bad, "a yieldRewriter is constructed in "+u.Name+" at "+en.prog.pos(y))
				}
			case *ast.CallExpr:
				if id, ok := y.Fun.(*ast.Ident); ok && id.Name == "mkYieldRewriter" {
					nCalls++
					if u.Key != "rewriter.rewriteFile" {
						bad = append(bad, "mkYieldRewriter is called from "+u.Name+" at "+en.prog.pos(y))
					}
					for _, anc := range stack {
						switch anc.(type) {
						case *ast.ForStmt, *ast.RangeStmt:
							bad = append(bad, "mkYieldRewriter is called inside a loop at "+en.prog.pos(y))
						}
					}
				}
			}
			return true
		})
	}
	if nCalls != 1 {
		bad = append(bad, fmt.Sprintf("mkYieldRewriter has %d call sites, expected exactly one (in rewriteFile)", nCalls))
	}
	if len(bad) > 0 {
		return false, strings.Join(bad, "; ")
	}
	return true, ""
}

// scanRewriterPackageState (C15): the compiler keeps no mutable package-level state between files:
// the only package-level variables are the stateless factory X and runningWithGoTest (set at init).
func (en *Engine) scanRewriterPackageState() (bool, string) {
	pk := en.prog.Pkgs["rewriter"]
	allowed := map[string]bool{"X": true, "runningWithGoTest": true}
	var bad []string
	for i, f := range pk.Syntax {
		if strings.HasSuffix(pk.CompiledGoFiles[i], "_test.go") {
			continue
		}
		for _, d := range f.Decls {
			if gd, ok := d.(*ast.GenDecl); ok && gd.Tok == token.VAR {
				for _, sp := range gd.Specs {
					for _, n := range sp.(*ast.ValueSpec).Names {
						if !allowed[n.Name] && n.Name != "_" {
							bad = append(bad, "package-level variable "+n.Name+" at "+en.prog.pos(n))
						}
					}
				}
			}
		}
	}
	// and neither of the allowed ones is assigned anywhere
	for _, u := range en.prog.Units {
		if u.Pkg.Name != "rewriter" || u.Lit != nil {
			continue
		}
		ast.Inspect(u.Body, func(n ast.Node) bool {
			if as, ok := n.(*ast.AssignStmt); ok {
				for _, l := range as.Lhs {
					if id, ok := l.(*ast.Ident); ok && allowed[id.Name] {
						if v, ok := u.Pkg.TypesInfo.Uses[id].(*types.Var); ok && v.Parent() == v.Pkg().Scope() {
							bad = append(bad, id.Name+" assigned in "+u.Name)
						}
					}
				}
			}
			return true
		})
	}
	if len(bad) > 0 {
		return false, strings.Join(bad, "; ")
	}
	return true, ""
}

// scanNoMapIteration (C15): Go randomises map iteration order; nothing in the compiler may iterate a map
// (output order would differ between runs of the same sources).
func (en *Engine) scanNoMapIteration() (bool, string) {
	var bad []string
	for _, u := range en.prog.Units {
		if u.Pkg.Name != "rewriter" || u.Lit != nil {
			continue
		}
		ast.Inspect(u.Body, func(n ast.Node) bool {
			if rs, ok := n.(*ast.RangeStmt); ok {
				if t := u.Pkg.TypesInfo.TypeOf(rs.X); t != nil {
					if _, isMap := t.Underlying().(*types.Map); isMap {
						bad = append(bad, "range over a map in "+u.Name+" at "+en.prog.pos(rs))
					}
				}
			}
			return true
		})
	}
	if len(bad) > 0 {
		return false, strings.Join(bad, "; ")
	}
	return true, ""
}

// isDriverLit: a closure of the driver shape `func(V) *step[V]` (the type next[V]): it runs a Seq and then reads the step the
// Seq may have recorded - the one place where a CPS call is followed by more code (the trampoline every yield unwinds to).
func isDriverLit(u *UnitInfo) bool {
	if u.Sig == nil || u.Sig.Results().Len() != 1 {
		return false
	}
	pt, ok := u.Sig.Results().At(0).Type().(*types.Pointer)
	if !ok {
		return false
	}
	n, ok := types.Unalias(pt.Elem()).(*types.Named)
	return ok && n.Obj().Name() == "step"
}
