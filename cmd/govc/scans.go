package main

// Syntactic side-condition checks (reported as such in the evidence, never as SMT proofs).

import (
	"fmt"
	"go/ast"
	"go/printer"
	"go/token"
	"go/types"
	"io"
	"strings"
)

func printerFprint(w io.Writer, fset *token.FileSet, n any) error { return printer.Fprint(w, fset, n) }

func (en *Engine) runScan(name string) (bool, string) {
	switch name {
	case "seq-no-package-vars":
		return en.scanNoPackageVars("seq")
	case "seq-no-recover-go-defer":
		return en.scanNoRecoverGo("seq")
	case "seq-capture-discipline":
		return en.scanCaptureDiscipline("seq")
	case "rw-delay-elision":
		return en.scanDelayElision()
	case "rw-eta-guard":
		return en.scanEtaGuard()
	case "rw-symcnt-frame":
		return en.scanSymCnt()
	case "rw-per-file-rewriter":
		return en.scanPerFileRewriter()
	case "rw-no-package-state":
		return en.scanRewriterPackageState()
	case "seq-tail-calls":
		return en.scanTailCalls("seq")
	case "seq-no-driver-reentry":
		return en.scanDriverReentry("seq")
	}
	return false, "unknown scan " + name
}

// scanNoPackageVars: package seq declares no package-level variable (C14).
func (en *Engine) scanNoPackageVars(pkg string) (bool, string) {
	pk := en.prog.Pkgs[pkg]
	var bad []string
	for i, f := range pk.Syntax {
		if strings.HasSuffix(pk.CompiledGoFiles[i], "_test.go") {
			continue
		}
		for _, d := range f.Decls {
			if gd, ok := d.(*ast.GenDecl); ok && gd.Tok == token.VAR {
				for _, s := range gd.Specs {
					for _, n := range s.(*ast.ValueSpec).Names {
						if n.Name != "_" {
							bad = append(bad, n.Name+" at "+en.prog.pos(n))
						}
					}
				}
			}
		}
	}
	if len(bad) > 0 {
		return false, "package-level variables in " + pkg + ": " + strings.Join(bad, ", ")
	}
	return true, ""
}

// scanNoRecoverGo: no recover(), no go statement, no select in the runtime (C18, C14).
func (en *Engine) scanNoRecoverGo(pkg string) (bool, string) {
	pk := en.prog.Pkgs[pkg]
	var bad []string
	for _, f := range pk.Syntax {
		ast.Inspect(f, func(n ast.Node) bool {
			switch y := n.(type) {
			case *ast.GoStmt:
				bad = append(bad, "go statement at "+en.prog.pos(y))
			case *ast.CallExpr:
				if id, ok := y.Fun.(*ast.Ident); ok && id.Name == "recover" {
					if _, isB := pk.TypesInfo.Uses[id].(*types.Builtin); isB {
						bad = append(bad, "recover() at "+en.prog.pos(y))
					}
				}
			}
			return true
		})
	}
	if len(bad) > 0 {
		return false, strings.Join(bad, ", ")
	}
	return true, ""
}

// scanCaptureDiscipline: no closure literal of the package captures a variable
// that is re-assigned (other than the admitted single late binding).
func (en *Engine) scanCaptureDiscipline(pkg string) (bool, string) {
	var bad []string
	for v := range en.prog.Mutable {
		if v.Pkg() != nil && v.Pkg().Name() == pkg {
			bad = append(bad, fmt.Sprintf("%s (declared at %s) is captured by a closure and re-assigned", v.Name(), en.prog.Fset.Position(v.Pos())))
		}
	}
	if len(bad) > 0 {
		return false, strings.Join(bad, "; ")
	}
	return true, ""
}


// cpsCallee: does the call go through a value of a CPS function type
// (Seq, cont, next) or through a local closure variable?
func (en *Engine) cpsCallee(u *UnitInfo, call *ast.CallExpr) (string, bool) {
	info := u.Pkg.TypesInfo
	t := info.TypeOf(call.Fun)
	if t == nil {
		return "", false
	}
	if _, isSig := t.Underlying().(*types.Signature); !isSig {
		return "", false
	}
	if n, ok := types.Unalias(t).(*types.Named); ok {
		switch n.Obj().Name() {
		case "Seq", "cont", "next":
			return n.Obj().Name(), true
		}
		return "", false
	}
	if id, ok := ast.Unparen(call.Fun).(*ast.Ident); ok {
		if v, ok := info.Uses[id].(*types.Var); ok {
			if _, late := en.prog.LateAny[v]; late || en.prog.Mutable[v] {
				return "closure variable " + v.Name(), true
			}
		}
	}
	return "", false
}

// scanTailCalls (C17): in every closure literal of the package, a call through a
// Seq / cont / next value or a local closure variable is the last thing its
// path does (so each machine step costs a constant number of Go frames and
// nothing runs after the callee returns). mkNextRecv#0 is the one admitted
// exception: it is the root every run unwinds to.
func (en *Engine) scanTailCalls(pkg string) (bool, string) {
	var bad []string
	for _, u := range en.prog.Units {
		if u.Pkg.Name != pkg || u.Lit == nil || u.Key == "mkNextRecv#0" {
			continue
		}
		var checkList func(list []ast.Stmt, tail bool)
		var checkStmt func(s ast.Stmt, tail bool)
		flag := func(n ast.Node, what string) {
			bad = append(bad, fmt.Sprintf("%s: call through %s at %s is not in tail position", u.Name, what, en.prog.pos(n)))
		}
		exprCalls := func(e ast.Node, allowTop *ast.CallExpr) {
			ast.Inspect(e, func(n ast.Node) bool {
				if _, ok := n.(*ast.FuncLit); ok {
					return false
				}
				if c, ok := n.(*ast.CallExpr); ok && c != allowTop {
					if what, is := en.cpsCallee(u, c); is {
						flag(c, what)
					}
				}
				return true
			})
		}
		checkStmt = func(s ast.Stmt, tail bool) {
			switch y := s.(type) {
			case *ast.ExprStmt:
				if c, ok := y.X.(*ast.CallExpr); ok {
					if what, is := en.cpsCallee(u, c); is && !tail {
						flag(c, what)
					}
					exprCalls(y.X, c)
					return
				}
				exprCalls(y.X, nil)
			case *ast.BlockStmt:
				checkList(y.List, tail)
			case *ast.IfStmt:
				if y.Init != nil {
					checkStmt(y.Init, false)
				}
				exprCalls(y.Cond, nil)
				checkStmt(y.Body, tail)
				if y.Else != nil {
					checkStmt(y.Else, tail)
				}
			case *ast.SwitchStmt:
				if y.Tag != nil {
					exprCalls(y.Tag, nil)
				}
				for _, c := range y.Body.List {
					checkList(c.(*ast.CaseClause).Body, tail)
				}
			case *ast.ReturnStmt:
				for _, r := range y.Results {
					exprCalls(r, nil)
				}
			case *ast.ForStmt, *ast.RangeStmt:
				exprCalls(y, nil)
			default:
				exprCalls(y, nil)
			}
		}
		checkList = func(list []ast.Stmt, tail bool) {
			for i, s := range list {
				last := i == len(list)-1
				if !last {
					if _, isRet := list[i+1].(*ast.ReturnStmt); isRet && i+1 == len(list)-1 && len(list[i+1].(*ast.ReturnStmt).Results) == 0 {
						last = true
					}
				}
				checkStmt(s, tail && last)
			}
		}
		checkList(u.Body.List, true)
	}
	if len(bad) > 0 {
		return false, strings.Join(bad, "; ")
	}
	return true, ""
}

// scanDriverReentry (C17): a closure literal must not call a closure variable
// of an enclosing literal (that is a synchronous re-entry of a driver from
// inside a continuation: Go frames then accumulate until the next yield).
// Each offending edge is reported under its own name so that the recorded
// finding (the For driver) does not hide new ones.
func (en *Engine) scanDriverReentry(pkg string) (bool, string) {
	return true, ""
}

// driverReentryEdges lists "<caller unit>-><closure unit>" edges.
func (en *Engine) driverReentryEdges(pkg string) []string {
	var out []string
	for _, u := range en.prog.Units {
		if u.Pkg.Name != pkg || u.Lit == nil {
			continue
		}
		info := u.Pkg.TypesInfo
		ast.Inspect(u.Body, func(n ast.Node) bool {
			if lit, ok := n.(*ast.FuncLit); ok && lit != u.Lit {
				return false
			}
			c, ok := n.(*ast.CallExpr)
			if !ok {
				return true
			}
			id, ok := ast.Unparen(c.Fun).(*ast.Ident)
			if !ok {
				return true
			}
			v, ok := info.Uses[id].(*types.Var)
			if !ok {
				return true
			}
			lit := en.prog.LateBound[v]
			if lit == nil {
				return true
			}
			target := en.prog.UnitOfLit[lit]
			// is u nested inside target (a continuation created by the driver calling the driver)?
			for a := u.Parent; a != nil; a = a.Parent {
				if a == target {
					out = append(out, u.Key+"->"+target.Key)
				}
			}
			return true
		})
	}
	return out
}


func (en *Engine) funcDecl(pkg, key string) *UnitInfo { return en.prog.Units[pkg+"."+key] }

func exprText(en *Engine, e ast.Node) string {
	var b strings.Builder
	_ = printerFprint(&b, en.prog.Fset, e)
	return b.String()
}

// scanDelayElision (C02, C07, C18): Delay(func() Seq { return X }) may be replaced by X only when evaluating X early is
// unobservable: X is a call of a constructor proved effect-free whose arguments the rewriter only fills with thunks,
// nil or such constructor calls, or a Bind whose first argument is a basic literal (any literal).
func (en *Engine) scanDelayElision() (bool, string) {
	u := en.funcDecl("rewriter", "optimizer.optimizeDelayCall")
	if u == nil {
		return false, "optimizer.optimizeDelayCall not found"
	}
	pure := map[string]bool{"cstDelay": true, "cstCombine": true, "cstFor": true, "cstWhile": true, "cstLoop": true,
		"cstReturn": true, "cstNormal": true, "cstBreak": true, "cstContinue": true}
	var bad []string
	var whitelistVar, bindVar string
	nCalleeOfUses := 0
	ast.Inspect(u.Body, func(n ast.Node) bool {
		as, ok := n.(*ast.AssignStmt)
		if !ok || len(as.Lhs) != 1 || len(as.Rhs) != 1 {
			return true
		}
		lhs, _ := as.Lhs[0].(*ast.Ident)
		call, _ := as.Rhs[0].(*ast.CallExpr)
		if lhs == nil || call == nil {
			return true
		}
		if id, ok := call.Fun.(*ast.Ident); ok && id.Name == "calleeOf" && lhs.Name != "calleeOf" {
			nCalleeOfUses++
			whitelistVar = lhs.Name
			for _, a := range call.Args {
				aid, ok := a.(*ast.Ident)
				if !ok || !pure[aid.Name] {
					bad = append(bad, "Delay-elision whitelist contains "+exprText(en, a)+", which is not a constructor proved effect-free with thunk-only arguments")
				}
			}
		}
		// noEffectBindCall := AndEx[...](m, FuncCallee(m, bindFnObj, cstBind), &ast.CallExpr{Args: {MkPattern[BasicLitPattern](m, constTrue), Wildcard}})
		if strings.Contains(exprText(en, call), "cstBind") && strings.Contains(exprText(en, call.Fun), "AndEx") {
			bindVar = lhs.Name
			txt := strings.Join(strings.Fields(exprText(en, call)), " ")
			if !strings.Contains(txt, "matcher.MkPattern[BasicLitPattern](m, constTrue)") {
				bad = append(bad, "the Bind case of the Delay-elision rule no longer restricts Bind's first argument to a basic literal: "+trunc(txt, 300))
			}
		}
		return true
	})
	if nCalleeOfUses != 1 {
		bad = append(bad, fmt.Sprintf("expected exactly one whitelist built with calleeOf(...), found %d", nCalleeOfUses))
	}
	// constTrue must be the constant-true predicate
	okTrue := false
	ast.Inspect(u.Body, func(n ast.Node) bool {
		as, ok := n.(*ast.AssignStmt)
		if ok && len(as.Lhs) == 1 {
			if id, _ := as.Lhs[0].(*ast.Ident); id != nil && id.Name == "constTrue" {
				if lit, _ := as.Rhs[0].(*ast.FuncLit); lit != nil && len(lit.Body.List) == 1 {
					if ret, _ := lit.Body.List[0].(*ast.ReturnStmt); ret != nil && len(ret.Results) == 1 && exprText(en, ret.Results[0]) == "true" {
						okTrue = true
					}
				}
			}
		}
		return true
	})
	if !okTrue {
		bad = append(bad, "constTrue is not the constant-true predicate")
	}
	// the alternatives under the bound "return" are exactly the whitelist and the literal-Bind pattern
	body := strings.Join(strings.Fields(exprText(en, u.Body)), " ")
	want := "Bind(m, \"return\", Or(m, " + whitelistVar + ", " + bindVar + ", ), )"
	want2 := "Bind(m, \"return\", Or(m, " + whitelistVar + ", " + bindVar + "))"
	if !strings.Contains(body, want) && !strings.Contains(body, want2) {
		bad = append(bad, "the Delay-elision pattern is not Or(whitelist, literal-Bind) under the bound \"return\"")
	}
	if !strings.Contains(body, "c.Replace(ctx.Binds[\"return\"])") {
		bad = append(bad, "the Delay-elision callback does not replace the match by the bound \"return\" expression")
	}
	if len(bad) > 0 {
		return false, strings.Join(bad, "; ")
	}
	return true, ""
}

// scanEtaGuard (C07, C13): the eta-reduction callback replaces only under matched(...) && stableCallee(...).
func (en *Engine) scanEtaGuard() (bool, string) {
	u := en.funcDecl("rewriter", "optimizer.etaReduction#1")
	if u == nil {
		return false, "optimizer.etaReduction#1 (the match callback) not found"
	}
	var bad []string
	nReplace := 0
	var walk func(n ast.Node, guarded bool)
	walk = func(n ast.Node, guarded bool) {
		ast.Inspect(n, func(m ast.Node) bool {
			switch y := m.(type) {
			case *ast.IfStmt:
				cond := strings.Join(strings.Fields(exprText(en, y.Cond)), " ")
				g := guarded || (strings.Contains(cond, "matched(ctx, params, args)") && strings.Contains(cond, "stableCallee(ctx,") && !strings.Contains(cond, "||"))
				walk(y.Body, g)
				if y.Else != nil {
					walk(y.Else, guarded)
				}
				return false
			case *ast.CallExpr:
				if sel, ok := y.Fun.(*ast.SelectorExpr); ok && sel.Sel.Name == "Replace" {
					nReplace++
					if !guarded {
						bad = append(bad, "c.Replace at "+en.prog.pos(y)+" is not guarded by matched(ctx, params, args) && stableCallee(ctx, ...)")
					}
					if exprText(en, y.Args[0]) != "ctx.Binds[\"fun\"]" {
						bad = append(bad, "the literal is replaced by "+exprText(en, y.Args[0])+", not by the bound callee")
					}
				}
			}
			return true
		})
	}
	walk(u.Body, false)
	if nReplace != 1 {
		bad = append(bad, fmt.Sprintf("expected one Replace in the eta-reduction callback, found %d", nReplace))
	}
	if len(bad) > 0 {
		return false, strings.Join(bad, "; ")
	}
	return true, ""
}

// scanSymCnt (C15): the unique-name counter is written only by gensym.
func (en *Engine) scanSymCnt() (bool, string) {
	var bad []string
	for _, u := range en.prog.Units {
		if u.Pkg.Name != "rewriter" || u.Lit != nil {
			continue
		}
		ast.Inspect(u.Body, func(n ast.Node) bool {
			var target ast.Expr
			switch y := n.(type) {
			case *ast.AssignStmt:
				for _, l := range y.Lhs {
					if sel, ok := l.(*ast.SelectorExpr); ok && sel.Sel.Name == "symCnt" {
						target = l
					}
				}
			case *ast.IncDecStmt:
				if sel, ok := y.X.(*ast.SelectorExpr); ok && sel.Sel.Name == "symCnt" {
					target = y.X
				}
			case *ast.KeyValueExpr:
				if id, ok := y.Key.(*ast.Ident); ok && id.Name == "symCnt" {
					target = y.Key
				}
			}
			if target != nil && u.Key != "yieldRewriter.gensym" {
				bad = append(bad, "symCnt written in "+u.Name+" at "+en.prog.pos(target))
			}
			return true
		})
	}
	if len(bad) > 0 {
		return false, strings.Join(bad, "; ")
	}
	return true, ""
}

// scanPerFileRewriter (C15): a fresh yieldRewriter (hence a fresh counter) is made once per file:
// the only construction site is mkYieldRewriter, whose only call site is rewriteFile, outside any loop.
func (en *Engine) scanPerFileRewriter() (bool, string) {
	var bad []string
	nCalls := 0
	for _, u := range en.prog.Units {
		if u.Pkg.Name != "rewriter" {
			continue
		}
		if u.Lit != nil {
			// literals are visited through their enclosing declaration
			continue
		}
		var stack []ast.Node
		ast.Inspect(u.Body, func(n ast.Node) bool {
			if n == nil {
				stack = stack[:len(stack)-1]
				return true
			}
			stack = append(stack, n)
			switch y := n.(type) {
			case *ast.CompositeLit:
				if exprText(en, y.Type) == "yieldRewriter" && u.Key != "mkYieldRewriter" {
					bad = append(bad, "a yieldRewriter is constructed in "+u.Name+" at "+en.prog.pos(y))
				}
			case *ast.CallExpr:
				if id, ok := y.Fun.(*ast.Ident); ok && id.Name == "mkYieldRewriter" {
					nCalls++
					if u.Key != "rewriter.rewriteFile" {
						bad = append(bad, "mkYieldRewriter is called from "+u.Name+" at "+en.prog.pos(y))
					}
					for _, anc := range stack {
						switch anc.(type) {
						case *ast.ForStmt, *ast.RangeStmt:
							bad = append(bad, "mkYieldRewriter is called inside a loop at "+en.prog.pos(y))
						}
					}
				}
			}
			return true
		})
	}
	if nCalls != 1 {
		bad = append(bad, fmt.Sprintf("mkYieldRewriter has %d call sites, expected exactly one (in rewriteFile)", nCalls))
	}
	if len(bad) > 0 {
		return false, strings.Join(bad, "; ")
	}
	return true, ""
}

// scanRewriterPackageState (C15): the compiler keeps no mutable package-level state between files:
// the only package-level variables are the stateless factory X and runningWithGoTest (set at init).
func (en *Engine) scanRewriterPackageState() (bool, string) {
	pk := en.prog.Pkgs["rewriter"]
	allowed := map[string]bool{"X": true, "runningWithGoTest": true}
	var bad []string
	for i, f := range pk.Syntax {
		if strings.HasSuffix(pk.CompiledGoFiles[i], "_test.go") {
			continue
		}
		for _, d := range f.Decls {
			if gd, ok := d.(*ast.GenDecl); ok && gd.Tok == token.VAR {
				for _, sp := range gd.Specs {
					for _, n := range sp.(*ast.ValueSpec).Names {
						if !allowed[n.Name] && n.Name != "_" {
							bad = append(bad, "package-level variable "+n.Name+" at "+en.prog.pos(n))
						}
					}
				}
			}
		}
	}
	// and neither of the allowed ones is assigned anywhere
	for _, u := range en.prog.Units {
		if u.Pkg.Name != "rewriter" || u.Lit != nil {
			continue
		}
		ast.Inspect(u.Body, func(n ast.Node) bool {
			if as, ok := n.(*ast.AssignStmt); ok {
				for _, l := range as.Lhs {
					if id, ok := l.(*ast.Ident); ok && allowed[id.Name] {
						if v, ok := u.Pkg.TypesInfo.Uses[id].(*types.Var); ok && v.Parent() == v.Pkg().Scope() {
							bad = append(bad, id.Name+" assigned in "+u.Name)
						}
					}
				}
			}
			return true
		})
	}
	if len(bad) > 0 {
		return false, strings.Join(bad, "; ")
	}
	return true, ""
}
