package main

// Syntactic side-condition checks (reported as such in the evidence, never as SMT proofs).

import (
	"fmt"
	"go/ast"
	"go/token"
	"go/types"
	"strings"
)

func (en *Engine) runScan(name string) (bool, string) {
	switch name {
	case "seq-no-package-vars":
		return en.scanNoPackageVars("seq")
	case "seq-no-recover-go-defer":
		return en.scanNoRecoverGo("seq")
	case "seq-capture-discipline":
		return en.scanCaptureDiscipline("seq")
	}
	return false, "unknown scan " + name
}

// scanNoPackageVars: package seq declares no package-level variable (C14).
func (en *Engine) scanNoPackageVars(pkg string) (bool, string) {
	pk := en.prog.Pkgs[pkg]
	var bad []string
	for i, f := range pk.Syntax {
		if strings.HasSuffix(pk.CompiledGoFiles[i], "_test.go") {
			continue
		}
		for _, d := range f.Decls {
			if gd, ok := d.(*ast.GenDecl); ok && gd.Tok == token.VAR {
				for _, s := range gd.Specs {
					for _, n := range s.(*ast.ValueSpec).Names {
						if n.Name != "_" {
							bad = append(bad, n.Name+" at "+en.prog.pos(n))
						}
					}
				}
			}
		}
	}
	if len(bad) > 0 {
		return false, "package-level variables in " + pkg + ": " + strings.Join(bad, ", ")
	}
	return true, ""
}

// scanNoRecoverGo: no recover(), no go statement, no select in the runtime (C18, C14).
func (en *Engine) scanNoRecoverGo(pkg string) (bool, string) {
	pk := en.prog.Pkgs[pkg]
	var bad []string
	for _, f := range pk.Syntax {
		ast.Inspect(f, func(n ast.Node) bool {
			switch y := n.(type) {
			case *ast.GoStmt:
				bad = append(bad, "go statement at "+en.prog.pos(y))
			case *ast.CallExpr:
				if id, ok := y.Fun.(*ast.Ident); ok && id.Name == "recover" {
					if _, isB := pk.TypesInfo.Uses[id].(*types.Builtin); isB {
						bad = append(bad, "recover() at "+en.prog.pos(y))
					}
				}
			}
			return true
		})
	}
	if len(bad) > 0 {
		return false, strings.Join(bad, ", ")
	}
	return true, ""
}

// scanCaptureDiscipline: no closure literal of the package captures a variable
// that is re-assigned (other than the admitted single late binding).
func (en *Engine) scanCaptureDiscipline(pkg string) (bool, string) {
	var bad []string
	for v := range en.prog.Mutable {
		if v.Pkg() != nil && v.Pkg().Name() == pkg {
			bad = append(bad, fmt.Sprintf("%s (declared at %s) is captured by a closure and re-assigned", v.Name(), en.prog.Fset.Position(v.Pos())))
		}
	}
	if len(bad) > 0 {
		return false, strings.Join(bad, "; ")
	}
	return true, ""
}
