package main

// Parser for the //@ contract files (build-tag guarded, comment-only files in /repo).

import (
	"fmt"
	"os"
	"regexp"
	"strings"
)

type Clause struct {
	Kind string // requires ensures modifies ghost refines invariant panics-only-if assume decreases
	Name string // optional label: ensures[label]
	Expr cx     // parsed expression (nil for modifies)
	Locs []cx   // modifies locations
	Src  string
	Line int
}

type LoopSpec struct {
	Ordinal int
	Invs    []*Clause
	Mods    []string // extra havoc hints (variable names)
	Over    string   // natural name of the loop (the range operand as written): binds the ordinal to that loop
}

type UnitSpec struct {
	Kind      string // func closure type-contract extern model lemma
	Key       string // "integerIter.MoveNext", "For#0.0", "next", "utf8.DecodeRuneInString"
	Recv      string // header name bound to the receiver ("" if none)
	Params    []string
	Results   []string
	Clauses   []*Clause
	Loops     map[int]*LoopSpec
	Flags     map[string]bool // trusted, abstracted, pure, reveal:<M>
	Reveal    []string
	AssumeObl []string // obligation names (prefix) turned into listed assumptions, with the reason after ' because '
	File      string
	Line      int
	ModelDef  cx       // for model
	ModelPT   []string // model param types (Go type text)
	Props     []string // properties served (informational)
	Hint      string   // closure: the literal's natural name (variable it is assigned to, @Callee.argIndex, @return); binds the ordinal to that literal
}

func (u *UnitSpec) clauses(kind string) []*Clause {
	var out []*Clause
	for _, c := range u.Clauses {
		if c.Kind == kind {
			out = append(out, c)
		}
	}
	return out
}

type ContractSet struct {
	Units  map[string]*UnitSpec // by Kind+":"+Key
	Order  []*UnitSpec
	Models map[string]*UnitSpec
}

var (
	reHeaderFunc    = regexp.MustCompile(`^func\s+(?:\(\s*(\w+)\s+\*?([\w]+)(?:\[[^\]]*\])?\s*\)\s*)?(\w+)\s*\(([^)]*)\)\s*(?:\(([^)]*)\))?\s*$`)
	reHeaderClosure = regexp.MustCompile(`^closure\s+([\w.]+#[\d.]+)(?:\s+as\s+(@?[\w.~]+))?\s*\(([^)]*)\)\s*(?:\(([^)]*)\))?\s*$`)
	reHeaderTC      = regexp.MustCompile(`^type-contract\s+(\S+)\s*\(([^)]*)\)\s*(?:\(([^)]*)\))?\s*$`)
	reHeaderExtern  = regexp.MustCompile(`^extern\s+(\(\*?[\w./]+\)\.\w+|[\w./]+)\s*\(([^)]*)\)\s*(?:\(([^)]*)\))?\s*$`)
	reHeaderModel   = regexp.MustCompile(`^(?:model|pred)\s+(\w+)\s*\(([^)]*)\)\s*:=\s*(.*)$`)
	reClause        = regexp.MustCompile(`^(requires|ensures|cover|modifies|ghost|refines|co|captured-inv|assume-obligation|invariant|panics-only-if|assume|decreases|loop|trusted|abstracted|reveal|props|havoc)\b(?:\[([^\]]+)\])?\s*(.*)$`)
	reLoop          = regexp.MustCompile(`^#(\d+)(?:\s+over\s+(\S+))?\s+(invariant|havoc)\b(?:\[([^\]]+)\])?\s*(.*)$`)
)

func splitNames(s string) []string {
	var out []string
	for _, p := range strings.Split(s, ",") {
		p = strings.TrimSpace(p)
		if p != "" {
			out = append(out, p)
		}
	}
	return out
}

func parseContractFile(path string, cs *ContractSet) error {
	data, err := os.ReadFile(path)
	if err != nil {
		return err
	}
	var cur *UnitSpec
	var lastClause *Clause
	var lastSrc *string
	modelOf := map[*Clause]*UnitSpec{}
	finishClause := func() error {
		if lastClause != nil && lastSrc != nil {
			src := strings.TrimSpace(*lastSrc)
			lastClause.Src = src
			if mu := modelOf[lastClause]; mu != nil {
				e, err := parseCx(src)
				if err != nil {
					return fmt.Errorf("%s:%d: %v", path, lastClause.Line, err)
				}
				mu.ModelDef = e
				lastClause, lastSrc = nil, nil
				return nil
			}
			if lastClause.Kind == "modifies" {
				for _, part := range splitTop(src) {
					e, err := parseCx(part)
					if err != nil {
						return fmt.Errorf("%s:%d: %v", path, lastClause.Line, err)
					}
					lastClause.Locs = append(lastClause.Locs, e)
				}
			} else {
				e, err := parseCx(src)
				if err != nil {
					return fmt.Errorf("%s:%d: %v", path, lastClause.Line, err)
				}
				lastClause.Expr = e
			}
		}
		lastClause, lastSrc = nil, nil
		return nil
	}
	add := func(u *UnitSpec) error {
		k := u.Kind + ":" + u.Key
		if _, dup := cs.Units[k]; dup {
			return fmt.Errorf("%s:%d: duplicate unit %s", path, u.Line, k)
		}
		cs.Units[k] = u
		cs.Order = append(cs.Order, u)
		if u.Kind == "model" {
			cs.Models[u.Key] = u
		}
		return nil
	}
	lines := strings.Split(string(data), "\n")
	for ln, raw := range lines {
		t := strings.TrimSpace(raw)
		if !strings.HasPrefix(t, "//@") {
			continue
		}
		t = strings.TrimPrefix(t, "//@")
		if i := strings.Index(t, " -- "); i >= 0 {
			t = t[:i]
		}
		if strings.HasPrefix(strings.TrimSpace(t), "--") {
			continue
		}
		t = strings.TrimSpace(t)
		if t == "" {
			continue
		}
		lineNo := ln + 1
		newUnit := func(kind, key string) *UnitSpec {
			return &UnitSpec{Kind: kind, Key: key, Loops: map[int]*LoopSpec{}, Flags: map[string]bool{}, File: path, Line: lineNo}
		}
		if m := reHeaderFunc.FindStringSubmatch(t); m != nil {
			if err := finishClause(); err != nil {
				return err
			}
			key := m[3]
			if m[2] != "" {
				key = m[2] + "." + m[3]
			}
			cur = newUnit("func", key)
			cur.Recv = m[1]
			cur.Params = splitNames(m[4])
			cur.Results = splitNames(m[5])
			if err := add(cur); err != nil {
				return err
			}
			continue
		}
		if m := reHeaderClosure.FindStringSubmatch(t); m != nil {
			if err := finishClause(); err != nil {
				return err
			}
			cur = newUnit("closure", m[1])
			cur.Hint = m[2]
			cur.Params = splitNames(m[3])
			cur.Results = splitNames(m[4])
			if err := add(cur); err != nil {
				return err
			}
			continue
		}
		if m := reHeaderTC.FindStringSubmatch(t); m != nil {
			if err := finishClause(); err != nil {
				return err
			}
			cur = newUnit("type-contract", m[1])
			cur.Params = splitNames(m[2])
			cur.Results = splitNames(m[3])
			if err := add(cur); err != nil {
				return err
			}
			continue
		}
		if m := reHeaderExtern.FindStringSubmatch(t); m != nil {
			if err := finishClause(); err != nil {
				return err
			}
			cur = newUnit("extern", m[1])
			cur.Params = splitNames(m[2])
			cur.Results = splitNames(m[3])
			if err := add(cur); err != nil {
				return err
			}
			continue
		}
		if m := reHeaderModel.FindStringSubmatch(t); m != nil {
			if err := finishClause(); err != nil {
				return err
			}
			u := newUnit("model", m[1])
			for _, p := range splitNames(m[2]) {
				f := strings.Fields(p)
				if len(f) != 2 {
					return fmt.Errorf("%s:%d: model parameter needs a type: %q", path, lineNo, p)
				}
				u.Params = append(u.Params, f[0])
				u.ModelPT = append(u.ModelPT, f[1])
			}
			if strings.HasPrefix(t, "pred") {
				u.Flags["pred"] = true
			}
			if err := add(u); err != nil {
				return err
			}
			cur = nil
			c := &Clause{Kind: "modeldef", Line: lineNo}
			src := m[3]
			lastClause, lastSrc = c, &src
			modelOf[c] = u
			continue
		}
		if m := reClause.FindStringSubmatch(t); m != nil {
			if err := finishClause(); err != nil {
				return err
			}
			if cur == nil {
				return fmt.Errorf("%s:%d: clause outside a unit: %s", path, lineNo, t)
			}
			kind, label, rest := m[1], m[2], m[3]
			switch kind {
			case "trusted", "abstracted":
				cur.Flags[kind] = true
				continue
			case "assume-obligation":
				cur.AssumeObl = append(cur.AssumeObl, strings.TrimSpace(rest))
				continue
			case "reveal":
				cur.Reveal = append(cur.Reveal, splitNames(rest)...)
				continue
			case "props":
				cur.Props = append(cur.Props, splitNames(rest)...)
				continue
			case "loop":
				lm := reLoop.FindStringSubmatch(rest)
				if lm == nil {
					return fmt.Errorf("%s:%d: bad loop clause: %s", path, lineNo, t)
				}
				var ord int
				fmt.Sscan(lm[1], &ord)
				ls := cur.Loops[ord]
				if ls == nil {
					ls = &LoopSpec{Ordinal: ord}
					cur.Loops[ord] = ls
				}
				if lm[2] != "" {
					ls.Over = lm[2]
				}
				if lm[3] == "havoc" {
					ls.Mods = append(ls.Mods, splitNames(lm[5])...)
					continue
				}
				c := &Clause{Kind: "invariant", Name: lm[4], Line: lineNo}
				ls.Invs = append(ls.Invs, c)
				s := lm[5]
				lastClause, lastSrc = c, &s
				continue
			}
			c := &Clause{Kind: kind, Name: label, Line: lineNo}
			cur.Clauses = append(cur.Clauses, c)
			s := rest
			lastClause, lastSrc = c, &s
			continue
		}
		// continuation line
		if lastSrc != nil {
			*lastSrc += " " + t
			continue
		}
		return fmt.Errorf("%s:%d: cannot parse contract line: %s", path, lineNo, t)
	}
	return finishClause()
}

// splitTop splits at top-level commas (outside parentheses/brackets).
func splitTop(s string) []string {
	var out []string
	depth := 0
	start := 0
	for i, c := range s {
		switch c {
		case '(', '[':
			depth++
		case ')', ']':
			depth--
		case ',':
			if depth == 0 {
				out = append(out, strings.TrimSpace(s[start:i]))
				start = i + 1
			}
		}
	}
	if strings.TrimSpace(s[start:]) != "" {
		out = append(out, strings.TrimSpace(s[start:]))
	}
	return out
}
