package main

// Contract expression language: lexer, parser and AST.
//
// Go-like expressions extended with ==>, <==>, old(e), forall x: Sort :: e,
// exists x: Sort :: e, let x := e in e, if c then a else b.
// Function application f(a, b) denotes, in this order of lookup: a builtin
// (len, old, fresh, zero, ...), a model function declared in the contract
// file, a spec function of the SMT prelude, or a Go function under contract
// that is declared pure.

import (
	"fmt"
	"strings"
	"unicode"
)

type cx interface{ cxs() string }

type (
	cxIdent struct{ Name string }
	cxInt   struct{ Val string }
	cxStr   struct{ Val string }
	cxBool  struct{ Val bool }
	cxUn    struct {
		Op string
		X  cx
	}
	cxBin struct {
		Op   string
		L, R cx
	}
	cxSel struct {
		X   cx
		Sel string
	}
	cxIdx  struct{ X, I cx }
	cxCall struct {
		Fun  string
		Args []cx
	}
	cxQuant struct {
		Forall bool
		Var    string
		Sort   string
		Body   cx
	}
	cxLet struct {
		Var       string
		Val, Body cx
	}
	cxIte struct{ C, A, B cx }
)

func (e *cxIdent) cxs() string { return e.Name }
func (e *cxInt) cxs() string   { return e.Val }
func (e *cxStr) cxs() string   { return fmt.Sprintf("%q", e.Val) }
func (e *cxBool) cxs() string  { return fmt.Sprint(e.Val) }
func (e *cxUn) cxs() string    { return e.Op + e.X.cxs() }
func (e *cxBin) cxs() string   { return "(" + e.L.cxs() + " " + e.Op + " " + e.R.cxs() + ")" }
func (e *cxSel) cxs() string   { return e.X.cxs() + "." + e.Sel }
func (e *cxIdx) cxs() string   { return e.X.cxs() + "[" + e.I.cxs() + "]" }
func (e *cxCall) cxs() string {
	var a []string
	for _, x := range e.Args {
		a = append(a, x.cxs())
	}
	return e.Fun + "(" + strings.Join(a, ", ") + ")"
}
func (e *cxQuant) cxs() string {
	q := "exists"
	if e.Forall {
		q = "forall"
	}
	return "(" + q + " " + e.Var + ": " + e.Sort + " :: " + e.Body.cxs() + ")"
}
func (e *cxLet) cxs() string {
	return "(let " + e.Var + " := " + e.Val.cxs() + " in " + e.Body.cxs() + ")"
}
func (e *cxIte) cxs() string {
	return "(if " + e.C.cxs() + " then " + e.A.cxs() + " else " + e.B.cxs() + ")"
}

type ctok struct {
	kind string // id int str op eof
	text string
}

func cxLex(s string) ([]ctok, error) {
	var out []ctok
	rs := []rune(s)
	i := 0
	for i < len(rs) {
		c := rs[i]
		switch {
		case unicode.IsSpace(c):
			i++
		case unicode.IsLetter(c) || c == '_' || c == '$':
			j := i
			for j < len(rs) && (unicode.IsLetter(rs[j]) || unicode.IsDigit(rs[j]) || rs[j] == '_' || rs[j] == '$' || rs[j] == '#') {
				j++
			}
			out = append(out, ctok{"id", string(rs[i:j])})
			i = j
		case unicode.IsDigit(c):
			j := i
			for j < len(rs) && unicode.IsDigit(rs[j]) {
				j++
			}
			out = append(out, ctok{"int", string(rs[i:j])})
			i = j
		case c == '"':
			j := i + 1
			for j < len(rs) && rs[j] != '"' {
				j++
			}
			if j >= len(rs) {
				return nil, fmt.Errorf("unterminated string in %q", s)
			}
			out = append(out, ctok{"str", string(rs[i+1 : j])})
			i = j + 1
		default:
			ops := []string{"<==>", "==>", ":=", "::", "==", "!=", "<=", ">=", "&&", "||", "<", ">", "+", "-", "*", "/", "%", "!", "(", ")", "[", "]", ".", ",", ":"}
			matched := false
			for _, op := range ops {
				if strings.HasPrefix(string(rs[i:]), op) {
					out = append(out, ctok{"op", op})
					i += len([]rune(op))
					matched = true
					break
				}
			}
			if !matched {
				return nil, fmt.Errorf("bad character %q in %q", c, s)
			}
		}
	}
	out = append(out, ctok{"eof", ""})
	return out, nil
}

type cxParser struct {
	toks []ctok
	pos  int
	src  string
}

func parseCx(s string) (e cx, err error) {
	toks, err := cxLex(s)
	if err != nil {
		return nil, err
	}
	p := &cxParser{toks: toks, src: s}
	defer func() {
		if r := recover(); r != nil {
			if pe, ok := r.(cxParseErr); ok {
				err = fmt.Errorf("%s in %q", string(pe), s)
				return
			}
			panic(r)
		}
	}()
	e = p.expr()
	if p.peek().kind != "eof" {
		p.fail("trailing input at %q", p.peek().text)
	}
	return e, nil
}

type cxParseErr string

func (p *cxParser) fail(f string, a ...any) { panic(cxParseErr(fmt.Sprintf(f, a...))) }
func (p *cxParser) peek() ctok              { return p.toks[p.pos] }
func (p *cxParser) next() ctok              { t := p.toks[p.pos]; p.pos++; return t }
func (p *cxParser) isOp(s string) bool      { t := p.peek(); return t.kind == "op" && t.text == s }
func (p *cxParser) isKw(s string) bool      { t := p.peek(); return t.kind == "id" && t.text == s }
func (p *cxParser) accept(s string) bool {
	if p.isOp(s) {
		p.pos++
		return true
	}
	return false
}
func (p *cxParser) expect(s string) {
	if !p.accept(s) {
		p.fail("expected %q, found %q", s, p.peek().text)
	}
}
func (p *cxParser) expectKw(s string) {
	if !p.isKw(s) {
		p.fail("expected %q, found %q", s, p.peek().text)
	}
	p.pos++
}

func (p *cxParser) expr() cx { return p.iff() }
func (p *cxParser) iff() cx {
	l := p.impl()
	for p.accept("<==>") {
		r := p.impl()
		l = &cxBin{"<==>", l, r}
	}
	return l
}
func (p *cxParser) impl() cx {
	l := p.or()
	if p.accept("==>") {
		r := p.impl()
		return &cxBin{"==>", l, r}
	}
	return l
}
func (p *cxParser) or() cx {
	l := p.and()
	for p.accept("||") {
		l = &cxBin{"||", l, p.and()}
	}
	return l
}
func (p *cxParser) and() cx {
	l := p.cmp()
	for p.accept("&&") {
		l = &cxBin{"&&", l, p.cmp()}
	}
	return l
}
func (p *cxParser) cmp() cx {
	l := p.add()
	for _, op := range []string{"==", "!=", "<=", ">=", "<", ">"} {
		if p.accept(op) {
			r := p.add()
			return &cxBin{op, l, r}
		}
	}
	return l
}
func (p *cxParser) add() cx {
	l := p.mul()
	for {
		if p.accept("+") {
			l = &cxBin{"+", l, p.mul()}
		} else if p.accept("-") {
			l = &cxBin{"-", l, p.mul()}
		} else {
			return l
		}
	}
}
func (p *cxParser) mul() cx {
	l := p.unary()
	for {
		if p.accept("*") {
			l = &cxBin{"*", l, p.unary()}
		} else if p.accept("/") {
			l = &cxBin{"/", l, p.unary()}
		} else if p.accept("%") {
			l = &cxBin{"%", l, p.unary()}
		} else {
			return l
		}
	}
}
func (p *cxParser) unary() cx {
	if p.accept("!") {
		return &cxUn{"!", p.unary()}
	}
	if p.accept("-") {
		return &cxUn{"-", p.unary()}
	}
	return p.postfix()
}
func (p *cxParser) postfix() cx {
	e := p.primary()
	for {
		switch {
		case p.accept("."):
			t := p.next()
			if t.kind != "id" {
				p.fail("expected field name after '.'")
			}
			e = &cxSel{e, t.text}
		case p.accept("["):
			i := p.expr()
			p.expect("]")
			e = &cxIdx{e, i}
		case p.isOp("("):
			id, ok := e.(*cxIdent)
			if !ok {
				p.fail("call of non-identifier")
			}
			p.next()
			var args []cx
			if !p.isOp(")") {
				for {
					args = append(args, p.expr())
					if !p.accept(",") {
						break
					}
				}
			}
			p.expect(")")
			e = &cxCall{id.Name, args}
		default:
			return e
		}
	}
}
func (p *cxParser) primary() cx {
	t := p.next()
	switch t.kind {
	case "int":
		return &cxInt{t.text}
	case "str":
		return &cxStr{t.text}
	case "id":
		switch t.text {
		case "true":
			return &cxBool{true}
		case "false":
			return &cxBool{false}
		case "forall", "exists":
			v := p.next()
			if v.kind != "id" {
				p.fail("expected bound variable")
			}
			p.expect(":")
			so := p.next()
			if so.kind != "id" {
				p.fail("expected sort name")
			}
			p.expect("::")
			body := p.expr()
			return &cxQuant{t.text == "forall", v.text, so.text, body}
		case "let":
			v := p.next()
			p.expect(":=")
			val := p.expr()
			p.expectKw("in")
			body := p.expr()
			return &cxLet{v.text, val, body}
		case "if":
			c := p.expr()
			p.expectKw("then")
			a := p.expr()
			p.expectKw("else")
			b := p.expr()
			return &cxIte{c, a, b}
		}
		return &cxIdent{t.text}
	case "op":
		if t.text == "(" {
			e := p.expr()
			p.expect(")")
			return e
		}
	}
	p.fail("unexpected token %q", t.text)
	return nil
}
