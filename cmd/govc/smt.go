package main

// SMT-LIB plumbing: s-expression reader (for prelude signatures), solver race.

import (
	"bytes"
	"context"
	"fmt"
	"os"
	"os/exec"
	"path/filepath"
	"strings"
	"sync"
	"time"
)

type sx struct {
	atom string
	list []*sx
	isL  bool
}

func (s *sx) String() string {
	if !s.isL {
		return s.atom
	}
	var p []string
	for _, c := range s.list {
		p = append(p, c.String())
	}
	return "(" + strings.Join(p, " ") + ")"
}

func parseSexps(src string) ([]*sx, error) {
	var out []*sx
	i := 0
	var parse func() (*sx, error)
	skip := func() {
		for i < len(src) {
			if src[i] == ';' {
				for i < len(src) && src[i] != '\n' {
					i++
				}
			} else if src[i] == ' ' || src[i] == '\n' || src[i] == '\t' || src[i] == '\r' {
				i++
			} else {
				return
			}
		}
	}
	parse = func() (*sx, error) {
		skip()
		if i >= len(src) {
			return nil, fmt.Errorf("eof")
		}
		if src[i] == '(' {
			i++
			n := &sx{isL: true}
			for {
				skip()
				if i >= len(src) {
					return nil, fmt.Errorf("unbalanced")
				}
				if src[i] == ')' {
					i++
					return n, nil
				}
				c, err := parse()
				if err != nil {
					return nil, err
				}
				n.list = append(n.list, c)
			}
		}
		j := i
		if src[i] == '"' {
			j = i + 1
			for j < len(src) && src[j] != '"' {
				j++
			}
			j++
		} else if src[i] == '|' {
			j = i + 1
			for j < len(src) && src[j] != '|' {
				j++
			}
			j++
		} else {
			for j < len(src) && !strings.ContainsRune(" \n\t\r()", rune(src[j])) {
				j++
			}
		}
		a := src[i:j]
		i = j
		return &sx{atom: a}, nil
	}
	for {
		skip()
		if i >= len(src) {
			return out, nil
		}
		n, err := parse()
		if err != nil {
			return nil, err
		}
		out = append(out, n)
	}
}

// FunSig is the signature of a prelude function/constructor/selector.
type FunSig struct {
	Args []string
	Ret  string
}

// preludeSigs extracts declare-fun/define-fun/declare-const/datatype signatures.
func preludeSigs(src string, sigs map[string]FunSig, sorts map[string]bool) error {
	forms, err := parseSexps(src)
	if err != nil {
		return err
	}
	for _, f := range forms {
		if !f.isL || len(f.list) == 0 {
			continue
		}
		switch f.list[0].atom {
		case "declare-sort":
			sorts[f.list[1].atom] = true
		case "declare-const":
			sigs[f.list[1].atom] = FunSig{nil, f.list[2].String()}
		case "declare-fun":
			var args []string
			for _, a := range f.list[2].list {
				args = append(args, a.String())
			}
			sigs[f.list[1].atom] = FunSig{args, f.list[3].String()}
		case "define-fun", "define-fun-rec":
			var args []string
			for _, a := range f.list[2].list {
				args = append(args, a.list[1].String())
			}
			sigs[f.list[1].atom] = FunSig{args, f.list[3].String()}
		case "declare-datatypes":
			names := f.list[1].list
			defs := f.list[2].list
			for i, nm := range names {
				dt := nm.list[0].atom
				sorts[dt] = true
				for _, ctor := range defs[i].list {
					cname := ctor.list[0].atom
					var args []string
					for _, sel := range ctor.list[1:] {
						args = append(args, sel.list[1].String())
						sigs[sel.list[0].atom] = FunSig{[]string{dt}, sel.list[1].String()}
					}
					sigs[cname] = FunSig{args, dt}
					sigs["is_"+cname] = FunSig{[]string{dt}, "Bool"} // printed as ((_ is C) x)
				}
			}
		}
	}
	return nil
}

type SolverResult struct {
	Verdict string // unsat sat unknown timeout error
	Solver  string
	Ms      int64
	Output  string // first lines of output (model on sat)
	All     map[string]string
}

type solverDef struct {
	name string
	args func(file string, timeoutS int) []string
}

var solvers = []solverDef{
	{"z3-4.8.12", func(f string, t int) []string { return []string{"/usr/bin/z3", fmt.Sprintf("-T:%d", t), f} }},
	{"z3-5.1.0", func(f string, t int) []string { return []string{"z3-new", fmt.Sprintf("-T:%d", t), f} }},
	{"cvc5-1.0", func(f string, t int) []string {
		return []string{"cvc5", "--incremental", "--produce-models", fmt.Sprintf("--tlimit=%d", t*1000), f}
	}},
}

var solverSem = make(chan struct{}, 14)

// runSolvers races the installed solvers on one script; first sat/unsat wins.
// If needAgree is set, it waits for a second solver to confirm an unsat.
func runSolvers(workdir, name, script string, timeoutS int, needAgree bool) SolverResult {
	fn := filepath.Join(workdir, sanitize(name)+".smt2")
	if err := os.WriteFile(fn, []byte(script), 0o644); err != nil {
		return SolverResult{Verdict: "error", Output: err.Error()}
	}
	if !needAgree {
		// stage 1: the solver that decides most obligations, alone and briefly; the full race only if it does not answer
		if r, ok := runOne(solvers[1], fn, 2); ok {
			return r
		}
	}
	return raceSolvers(fn, timeoutS, needAgree)
}

func runOne(s solverDef, fn string, timeoutS int) (SolverResult, bool) {
	solverSem <- struct{}{}
	defer func() { <-solverSem }()
	args := s.args(fn, timeoutS)
	t0 := time.Now()
	c, cancel := context.WithTimeout(context.Background(), time.Duration(timeoutS+1)*time.Second)
	defer cancel()
	cmd := exec.CommandContext(c, args[0], args[1:]...)
	var buf bytes.Buffer
	cmd.Stdout = &buf
	cmd.Stderr = &buf
	_ = cmd.Run()
	out := buf.String()
	first := strings.TrimSpace(strings.SplitN(out, "\n", 2)[0])
	if first == "sat" || first == "unsat" {
		return SolverResult{Verdict: first, Solver: s.name, Ms: time.Since(t0).Milliseconds(), Output: trunc(out, 6000), All: map[string]string{s.name: first}}, true
	}
	return SolverResult{}, false
}

func raceSolvers(fn string, timeoutS int, needAgree bool) SolverResult {
	ctx, cancel := context.WithCancel(context.Background())
	defer cancel()
	type one struct {
		solver, verdict, out string
		ms                   int64
	}
	ch := make(chan one, len(solvers))
	var wg sync.WaitGroup
	for _, s := range solvers {
		s := s
		wg.Add(1)
		go func() {
			defer wg.Done()
			solverSem <- struct{}{}
			defer func() { <-solverSem }()
			if ctx.Err() != nil {
				ch <- one{s.name, "cancelled", "", 0}
				return
			}
			args := s.args(fn, timeoutS)
			t0 := time.Now()
			c, cancel2 := context.WithTimeout(ctx, time.Duration(timeoutS+2)*time.Second)
			defer cancel2()
			cmd := exec.CommandContext(c, args[0], args[1:]...)
			var buf bytes.Buffer
			cmd.Stdout = &buf
			cmd.Stderr = &buf
			_ = cmd.Run()
			out := buf.String()
			first := strings.TrimSpace(strings.SplitN(out, "\n", 2)[0])
			v := "unknown"
			switch {
			case first == "unsat":
				v = "unsat"
			case first == "sat":
				v = "sat"
			case first == "timeout" || c.Err() != nil:
				v = "timeout"
			case strings.Contains(first, "error") || strings.HasPrefix(first, "(error"):
				v = "error"
			}
			ch <- one{s.name, v, out, time.Since(t0).Milliseconds()}
		}()
	}
	go func() { wg.Wait(); close(ch) }()
	res := SolverResult{Verdict: "unknown", All: map[string]string{}}
	agree := 0
	for r := range ch {
		res.All[r.solver] = r.verdict
		if r.verdict == "error" && res.Output == "" {
			res.Output = trunc(r.out, 2000)
		}
		if r.verdict == "sat" || r.verdict == "unsat" {
			if res.Verdict == "sat" || res.Verdict == "unsat" {
				if res.Verdict != r.verdict {
					res.Verdict = "error"
					res.Output = "solvers disagree: " + fmt.Sprint(res.All)
					cancel()
					continue
				}
				agree++
			} else {
				res.Verdict, res.Solver, res.Ms, res.Output = r.verdict, r.solver, r.ms, trunc(r.out, 6000)
				agree = 1
			}
			if !needAgree || agree >= 2 || res.Verdict == "sat" {
				cancel()
			}
		}
	}
	if res.Verdict == "unknown" {
		nerr := 0
		for _, v := range res.All {
			if v == "timeout" {
				res.Verdict = "timeout"
			}
			if v == "error" {
				nerr++
			}
		}
		if nerr == len(res.All) {
			res.Verdict = "error"
		}
	}
	return res
}

func trunc(s string, n int) string {
	if len(s) > n {
		return s[:n] + "…"
	}
	return s
}

func sanitize(s string) string {
	var b strings.Builder
	for _, c := range s {
		if c >= 'a' && c <= 'z' || c >= 'A' && c <= 'Z' || c >= '0' && c <= '9' || c == '.' || c == '-' || c == '_' {
			b.WriteRune(c)
		} else {
			b.WriteByte('_')
		}
	}
	return b.String()
}
