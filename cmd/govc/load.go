package main

// Loading /repo, discovering units (functions, methods, closure literals by
// ordinal path), capture analysis.

import (
	"fmt"
	"go/ast"
	"go/token"
	"go/types"
	"path/filepath"
	"sort"
	"strings"

	"golang.org/x/tools/go/packages"
)

type UnitInfo struct {
	Name     string // "seq.For#0.0", "seq.integerIter.MoveNext"
	Key      string // key inside the package: "For#0.0", "integerIter.MoveNext"
	Pkg      *packages.Package
	Decl     *ast.FuncDecl // enclosing top-level function
	Lit      *ast.FuncLit  // nil for top-level functions
	Body     *ast.BlockStmt
	Sig      *types.Signature
	Recv     *types.Var
	Parent   *UnitInfo
	Children []*UnitInfo
	Spec     *UnitSpec
	CtxType  types.Type // contextual (named) type of a closure literal, if any
	FreeVars []*types.Var
	Loops    []ast.Stmt // loops of this unit in source order (not descending into literals)
	Natural  string     // closure: natural name (see naturalName)
}

type Program struct {
	Fset      *token.FileSet
	Pkgs      map[string]*packages.Package // by short name: seq, rewriter
	Units     map[string]*UnitInfo         // by Name
	UnitOfLit map[*ast.FuncLit]*UnitInfo
	UnitOfFn  map[*types.Func]*UnitInfo
	Contracts *ContractSet
	// capture analysis
	Mutable   map[*types.Var]bool         // captured and re-assigned: treated as a cell with unknown value across calls
	LateBound map[*types.Var]*ast.FuncLit // var x T; x = <value> exactly once: literal if a FuncLit
	LateAny   map[*types.Var]bool
	LitCtx    map[*ast.FuncLit]types.Type
	InitBind  map[*types.Var]ast.Expr // variable defined exactly once (var x = e / x := e) and never re-assigned: its initialiser
}

func loadProgram(repo string) (*Program, error) {
	fset := token.NewFileSet()
	cfg := &packages.Config{
		Mode: packages.NeedName | packages.NeedSyntax | packages.NeedTypes | packages.NeedTypesInfo |
			packages.NeedFiles | packages.NeedImports | packages.NeedDeps | packages.NeedCompiledGoFiles,
		Dir:        repo,
		Fset:       fset,
		BuildFlags: []string{"-tags=verif"},
		Env:        append(osEnviron(), "GOFLAGS=-mod=mod", "GOPROXY=off", "GOSUMDB=off"),
	}
	pkgs, err := packages.Load(cfg, "./seq", "./rewriter")
	if err != nil {
		return nil, err
	}
	p := &Program{Fset: fset, Pkgs: map[string]*packages.Package{}, Units: map[string]*UnitInfo{},
		UnitOfLit: map[*ast.FuncLit]*UnitInfo{}, UnitOfFn: map[*types.Func]*UnitInfo{},
		Mutable: map[*types.Var]bool{}, LateBound: map[*types.Var]*ast.FuncLit{}, LateAny: map[*types.Var]bool{},
		LitCtx: map[*ast.FuncLit]types.Type{}, InitBind: map[*types.Var]ast.Expr{},
		Contracts: &ContractSet{Units: map[string]*UnitSpec{}, Models: map[string]*UnitSpec{}}}
	for _, pk := range pkgs {
		if len(pk.Errors) > 0 {
			return nil, fmt.Errorf("package %s does not type-check: %v", pk.PkgPath, pk.Errors[0])
		}
		p.Pkgs[pk.Name] = pk
		// contracts first: closure headers may bind their ordinal to a literal by its natural name
		for i := range pk.Syntax {
			fn := pk.CompiledGoFiles[i]
			if strings.HasSuffix(fn, "_verif.go") {
				if err := parseContractFile(fn, p.Contracts); err != nil {
					return nil, err
				}
			}
		}
		for i, f := range pk.Syntax {
			if strings.HasSuffix(pk.CompiledGoFiles[i], "_verif.go") {
				continue
			}
			p.discover(pk, f)
		}
	}
	// attach specs
	for _, u := range p.Units {
		kind := "func"
		if u.Lit != nil {
			kind = "closure"
		}
		if s := p.Contracts.Units[kind+":"+u.Key]; s != nil {
			u.Spec = s
		}
	}
	return p, nil
}

func funcKey(fd *ast.FuncDecl) string {
	if fd.Recv != nil && len(fd.Recv.List) > 0 {
		t := fd.Recv.List[0].Type
		for {
			switch x := t.(type) {
			case *ast.StarExpr:
				t = x.X
				continue
			case *ast.IndexExpr:
				t = x.X
				continue
			case *ast.IndexListExpr:
				t = x.X
				continue
			case *ast.ParenExpr:
				t = x.X
				continue
			}
			break
		}
		if id, ok := t.(*ast.Ident); ok {
			return id.Name + "." + fd.Name.Name
		}
	}
	return fd.Name.Name
}

func (p *Program) discover(pk *packages.Package, f *ast.File) {
	for _, d := range f.Decls {
		fd, ok := d.(*ast.FuncDecl)
		if !ok || fd.Body == nil {
			continue
		}
		obj, _ := pk.TypesInfo.Defs[fd.Name].(*types.Func)
		if obj == nil {
			continue
		}
		key := funcKey(fd)
		u := &UnitInfo{Name: pk.Name + "." + key, Key: key, Pkg: pk, Decl: fd, Body: fd.Body,
			Sig: obj.Type().(*types.Signature)}
		u.Recv = u.Sig.Recv()
		p.Units[u.Name] = u
		p.UnitOfFn[obj] = u
		p.discoverLits(u, fd.Body, pk)
		p.captureAnalysis(pk, fd)
		p.initBindings(pk, fd)
		p.literalContexts(pk, fd)
	}
	for _, u := range p.Units {
		if u.Lit != nil && u.CtxType == nil {
			u.CtxType = p.LitCtx[u.Lit]
		}
	}
}

// discoverLits assigns ordinal paths to function literals nested in body and
// collects the loops of the unit.
func (p *Program) discoverLits(parent *UnitInfo, body *ast.BlockStmt, pk *packages.Package) {
	// direct child literals in source order, with their natural names
	type child struct {
		lit  *ast.FuncLit
		name string
	}
	var kids []child
	seenName := map[string]int{}
	var stack []ast.Node
	ast.Inspect(body, func(n ast.Node) bool {
		if n == nil {
			stack = stack[:len(stack)-1]
			return true
		}
		switch x := n.(type) {
		case *ast.FuncLit:
			name := naturalName(x, stack)
			if name != "" {
				seenName[name]++
				if seenName[name] > 1 {
					name = fmt.Sprintf("%s~%d", name, seenName[name])
				}
			}
			kids = append(kids, child{x, name})
			return false // nested literals belong to the child (no push: Inspect sends no nil for a pruned node)
		case *ast.ForStmt, *ast.RangeStmt:
			parent.Loops = append(parent.Loops, x.(ast.Stmt))
		}
		stack = append(stack, n)
		return true
	})
	sep := "#"
	if parent.Lit != nil {
		sep = "."
	}
	// ordinals bound by name in the contract file
	bound := map[string]int{} // natural name -> ordinal
	taken := map[int]bool{}
	prefix := "closure:" + parent.Key + sep
	for k, sp := range p.Contracts.Units {
		if sp.Hint == "" || !strings.HasPrefix(k, prefix) {
			continue
		}
		rest := strings.TrimPrefix(k, prefix)
		var ord int
		if _, err := fmt.Sscanf(rest, "%d", &ord); err != nil || fmt.Sprint(ord) != rest {
			continue
		}
		bound[sp.Hint] = ord
	}
	ordOf := make([]int, len(kids))
	for i := range ordOf {
		ordOf[i] = -1
	}
	for i, kd := range kids {
		if o, ok := bound[kd.name]; ok && kd.name != "" && !taken[o] {
			ordOf[i] = o
			taken[o] = true
		}
	}
	// an ordinal whose hint matches no literal (the variable was renamed, an anonymous literal was given a name, ...) is not
	// reserved: it goes, in source order, to the literals that no hint names - renaming alone therefore changes nothing
	next := 0
	for i, kd := range kids {
		if ordOf[i] < 0 {
			for taken[next] {
				next++
			}
			ordOf[i] = next
			taken[next] = true
		}
		key := fmt.Sprintf("%s%s%d", parent.Key, sep, ordOf[i])
		x := kd.lit
		sig, _ := pk.TypesInfo.TypeOf(x).(*types.Signature)
		u := &UnitInfo{Name: pk.Name + "." + key, Key: key, Pkg: pk, Decl: parent.Decl, Lit: x, Body: x.Body, Sig: sig, Parent: parent, Natural: kd.name}
		parent.Children = append(parent.Children, u)
		p.Units[u.Name] = u
		p.UnitOfLit[x] = u
		p.discoverLits(u, x.Body, pk)
		u.FreeVars = freeVars(pk, x)
	}
}

// naturalName: the variable a literal is assigned to, "@<callee>.<argument index>" for a literal passed to a call,
// "@return" for a returned literal, "" otherwise. stack holds the ancestors (innermost last).
func naturalName(lit *ast.FuncLit, stack []ast.Node) string {
	if len(stack) == 0 {
		return ""
	}
	switch par := stack[len(stack)-1].(type) {
	case *ast.AssignStmt:
		for i, r := range par.Rhs {
			if r == lit && i < len(par.Lhs) {
				if id, ok := par.Lhs[i].(*ast.Ident); ok {
					return id.Name
				}
			}
		}
	case *ast.ValueSpec:
		for i, r := range par.Values {
			if r == lit && i < len(par.Names) {
				return par.Names[i].Name
			}
		}
	case *ast.ReturnStmt:
		return "@return"
	case *ast.CallExpr:
		for i, a := range par.Args {
			if a == lit {
				callee := ""
				switch f := ast.Unparen(par.Fun).(type) {
				case *ast.Ident:
					callee = f.Name
				case *ast.SelectorExpr:
					callee = f.Sel.Name
				case *ast.IndexExpr:
					if id, ok := f.X.(*ast.Ident); ok {
						callee = id.Name
					} else if se, ok := f.X.(*ast.SelectorExpr); ok {
						callee = se.Sel.Name
					}
				}
				return fmt.Sprintf("@%s.%d", callee, i)
			}
		}
	}
	return ""
}

func freeVars(pk *packages.Package, lit *ast.FuncLit) []*types.Var {
	seen := map[*types.Var]bool{}
	var out []*types.Var
	ast.Inspect(lit, func(n ast.Node) bool {
		id, ok := n.(*ast.Ident)
		if !ok {
			return true
		}
		v, ok := pk.TypesInfo.Uses[id].(*types.Var)
		if !ok || v.IsField() || v.Pkg() == nil {
			return true
		}
		if v.Parent() == v.Pkg().Scope() { // package-level
			return true
		}
		if v.Pos() >= lit.Pos() && v.Pos() < lit.End() {
			return true
		}
		if !seen[v] {
			seen[v] = true
			out = append(out, v)
		}
		return true
	})
	sort.Slice(out, func(i, j int) bool { return out[i].Pos() < out[j].Pos() })
	return out
}

// captureAnalysis classifies variables of one top-level function that are
// captured by a function literal: immutable (never assigned after their
// declaration), late-bound (declared with var and assigned exactly once, at
// the top level of the declaring function body and outside any literal), or
// mutable (everything else).
func (p *Program) captureAnalysis(pk *packages.Package, fd *ast.FuncDecl) {
	info := pk.TypesInfo
	captured := map[*types.Var]bool{}
	ast.Inspect(fd.Body, func(n ast.Node) bool {
		if lit, ok := n.(*ast.FuncLit); ok {
			for _, v := range freeVars(pk, lit) {
				captured[v] = true
			}
		}
		return true
	})
	if len(captured) == 0 {
		return
	}
	type asg struct {
		inLit *ast.FuncLit // innermost literal containing the assignment (nil: the function body itself)
		stmt  *ast.AssignStmt
		rhs   ast.Expr
	}
	// innermost literal containing a position
	var lits []*ast.FuncLit
	ast.Inspect(fd.Body, func(n ast.Node) bool {
		if l, ok := n.(*ast.FuncLit); ok {
			lits = append(lits, l)
		}
		return true
	})
	innermost := func(pos token.Pos) *ast.FuncLit {
		var best *ast.FuncLit
		for _, l := range lits {
			if l.Pos() <= pos && pos < l.End() {
				if best == nil || (l.Pos() >= best.Pos() && l.End() <= best.End()) {
					best = l
				}
			}
		}
		return best
	}
	assigns := map[*types.Var][]asg{}
	addrTaken := map[*types.Var]bool{}
	var walk func(n ast.Node, inLit *ast.FuncLit)
	walk = func(n ast.Node, inLit *ast.FuncLit) {
		ast.Inspect(n, func(m ast.Node) bool {
			switch x := m.(type) {
			case *ast.FuncLit:
				if m != n {
					walk(x.Body, x)
					return false
				}
			case *ast.AssignStmt:
				if x.Tok == token.DEFINE {
					// redeclaration of an existing variable in a := counts as assignment
					for i, l := range x.Lhs {
						if id, ok := l.(*ast.Ident); ok {
							if v, ok := info.Uses[id].(*types.Var); ok && captured[v] {
								var r ast.Expr
								if len(x.Rhs) == len(x.Lhs) {
									r = x.Rhs[i]
								}
								assigns[v] = append(assigns[v], asg{inLit, x, r})
							}
						}
					}
					return true
				}
				for i, l := range x.Lhs {
					if id, ok := l.(*ast.Ident); ok {
						if v, ok := info.Uses[id].(*types.Var); ok && captured[v] {
							var r ast.Expr
							if len(x.Rhs) == len(x.Lhs) {
								r = x.Rhs[i]
							}
							assigns[v] = append(assigns[v], asg{inLit, x, r})
						}
					}
				}
			case *ast.IncDecStmt:
				if id, ok := x.X.(*ast.Ident); ok {
					if v, ok := info.Uses[id].(*types.Var); ok && captured[v] {
						assigns[v] = append(assigns[v], asg{inLit, nil, nil})
					}
				}
			case *ast.UnaryExpr:
				if x.Op == token.AND {
					if id, ok := x.X.(*ast.Ident); ok {
						if v, ok := info.Uses[id].(*types.Var); ok && captured[v] {
							addrTaken[v] = true
						}
					}
				}
			case *ast.RangeStmt:
				for _, l := range []ast.Expr{x.Key, x.Value} {
					if id, ok := l.(*ast.Ident); ok && x.Tok == token.ASSIGN {
						if v, ok := info.Uses[id].(*types.Var); ok && captured[v] {
							assigns[v] = append(assigns[v], asg{inLit, nil, nil})
						}
					}
				}
			}
			return true
		})
	}
	walk(fd.Body, nil)
	for v := range captured {
		as := assigns[v]
		if addrTaken[v] {
			p.Mutable[v] = true
			continue
		}
		if len(as) == 0 {
			continue
		}
		if len(as) == 1 && as[0].inLit == innermost(v.Pos()) && as[0].stmt != nil && len(as[0].stmt.Lhs) == 1 && declaredByVar(info, fd, v) {
			if lit, ok := as[0].rhs.(*ast.FuncLit); ok {
				p.LateBound[v] = lit
			}
			p.LateAny[v] = true
			continue
		}
		p.Mutable[v] = true
	}
}

// declaredByVar reports whether v is declared by a `var v T` statement without initialiser.
func declaredByVar(info *types.Info, fd *ast.FuncDecl, v *types.Var) bool {
	found := false
	ast.Inspect(fd.Body, func(n ast.Node) bool {
		ds, ok := n.(*ast.DeclStmt)
		if !ok {
			return true
		}
		gd, ok := ds.Decl.(*ast.GenDecl)
		if !ok || gd.Tok != token.VAR {
			return true
		}
		for _, s := range gd.Specs {
			vs := s.(*ast.ValueSpec)
			if len(vs.Values) != 0 {
				continue
			}
			for _, nm := range vs.Names {
				if info.Defs[nm] == v {
					found = true
				}
			}
		}
		return true
	})
	return found
}

// literalContexts finds the type a function literal is converted to by its
// syntactic context (return value, call argument, assignment, field value).
func (p *Program) literalContexts(pk *packages.Package, fd *ast.FuncDecl) {
	info := pk.TypesInfo
	var sigStack []*types.Signature
	if obj, ok := info.Defs[fd.Name].(*types.Func); ok {
		sigStack = append(sigStack, obj.Type().(*types.Signature))
	}
	var visit func(n ast.Node)
	visit = func(n ast.Node) {
		switch x := n.(type) {
		case nil:
			return
		case *ast.FuncLit:
			sig, _ := info.TypeOf(x).(*types.Signature)
			sigStack = append(sigStack, sig)
			visit(x.Body)
			sigStack = sigStack[:len(sigStack)-1]
			return
		case *ast.ReturnStmt:
			sig := sigStack[len(sigStack)-1]
			for i, r := range x.Results {
				if lit, ok := r.(*ast.FuncLit); ok && sig != nil && i < sig.Results().Len() {
					p.LitCtx[lit] = sig.Results().At(i).Type()
				}
			}
		case *ast.CallExpr:
			var ft *types.Signature
			if tt := info.TypeOf(x.Fun); tt != nil {
				ft, _ = tt.Underlying().(*types.Signature)
			}
			if ft != nil {
				for i, a := range x.Args {
					lit, ok := a.(*ast.FuncLit)
					viaVar := false
					if id, isId := a.(*ast.Ident); isId && !ok {
						// a literal bound once to a local variable and passed by that name: the parameter's type is its context
						if v, isVar := info.Uses[id].(*types.Var); isVar {
							if l, isLit := p.InitBind[v].(*ast.FuncLit); isLit {
								lit, ok, viaVar = l, true, true
							}
						}
					}
					if ok {
						pi := i
						if ft.Variadic() && pi >= ft.Params().Len()-1 {
							pi = ft.Params().Len() - 1
						}
						if pi < ft.Params().Len() {
							pt := ft.Params().At(pi).Type()
							if _, named := types.Unalias(pt).(*types.Named); named || !viaVar {
								p.LitCtx[lit] = pt
							}
						}
					}
				}
			}
		case *ast.AssignStmt:
			if len(x.Lhs) == len(x.Rhs) {
				for i, r := range x.Rhs {
					if lit, ok := r.(*ast.FuncLit); ok {
						if t := info.TypeOf(x.Lhs[i]); t != nil {
							p.LitCtx[lit] = t
						}
					}
				}
			}
		}
		// generic descent
		ast.Inspect(n, func(m ast.Node) bool {
			if m == n || m == nil {
				return true
			}
			visit(m)
			return false
		})
	}
	visit(fd.Body)
}

func (p *Program) pos(n ast.Node) string {
	ps := p.Fset.Position(n.Pos())
	return fmt.Sprintf("%s:%d", filepath.Base(ps.Filename), ps.Line)
}

// initBindings records, for local variables that are defined once with an
// initialiser and never assigned again, that initialiser (function literals and
// method values are what callers are interested in).
func (p *Program) initBindings(pk *packages.Package, fd *ast.FuncDecl) {
	info := pk.TypesInfo
	defs := map[*types.Var]ast.Expr{}
	assigned := map[*types.Var]bool{}
	ast.Inspect(fd.Body, func(n ast.Node) bool {
		switch y := n.(type) {
		case *ast.ValueSpec:
			if len(y.Values) == len(y.Names) {
				for i, nm := range y.Names {
					if v, ok := info.Defs[nm].(*types.Var); ok {
						defs[v] = y.Values[i]
					}
				}
			}
		case *ast.AssignStmt:
			for i, l := range y.Lhs {
				id, ok := l.(*ast.Ident)
				if !ok {
					continue
				}
				if y.Tok == token.DEFINE {
					if v, ok := info.Defs[id].(*types.Var); ok && len(y.Rhs) == len(y.Lhs) {
						defs[v] = y.Rhs[i]
						continue
					}
				}
				if v, ok := info.Uses[id].(*types.Var); ok {
					assigned[v] = true
				}
			}
		case *ast.IncDecStmt:
			if id, ok := y.X.(*ast.Ident); ok {
				if v, ok := info.Uses[id].(*types.Var); ok {
					assigned[v] = true
				}
			}
		case *ast.UnaryExpr:
			if y.Op == token.AND {
				if id, ok := y.X.(*ast.Ident); ok {
					if v, ok := info.Uses[id].(*types.Var); ok {
						assigned[v] = true
					}
				}
			}
		}
		return true
	})
	for v, e := range defs {
		if !assigned[v] && !p.Mutable[v] {
			p.InitBind[v] = e
		}
	}
}
