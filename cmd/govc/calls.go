package main

// Calls: builtins, conversions, static callees (by contract or inlined),
// function values (by the universal contract of their type), closures.

import (
	"fmt"
	"go/ast"
	"go/token"
	"go/types"
	"strings"
)

func (x *Exec) call(st *State, e *ast.CallExpr, k func(*State, []Term)) {
	if st.dead || len(x.undecided) > 0 {
		return
	}
	// conversion T(x)
	if tv, ok := x.info.Types[e.Fun]; ok && tv.IsType() {
		x.expr(st, e.Args[0], func(st *State, v Term) {
			to := tv.Type
			ts := x.d.sortOf(to)
			switch {
			case ts == v.Sort || v.Sort == "Nil":
				k(st, []Term{x.conv(st, v, to)})
			case ts == "Iface":
				k(st, []Term{x.conv(st, v, to)})
			case ts == "Slice" && v.Sort == "Str":
				// []rune(s) / []byte(s): opaque
				f := x.d.fun("conv_str_slice_"+sanitizeSym(types.TypeString(to, nil)), []string{"Str"}, "Slice")
				r := Term{S: fmt.Sprintf("(%s %s)", f, v.S), Sort: "Slice", T: to}
				x.noteRead(st, r)
				k(st, []Term{r})
			default:
				x.undecide("unsupported conversion %s -> %s at %s", v.Sort, ts, x.prog.pos(e))
			}
		})
		return
	}
	// builtins
	if id, ok := ast.Unparen(e.Fun).(*ast.Ident); ok {
		if b, ok := x.info.Uses[id].(*types.Builtin); ok {
			x.builtin(st, b.Name(), e, k)
			return
		}
	}
	// static callee?
	var fn *types.Func
	var recvExpr ast.Expr
	var selIdx []int
	var selRecvT types.Type
	fun := ast.Unparen(e.Fun)
	if ix, ok := fun.(*ast.IndexExpr); ok { // explicit instantiation f[T](...)
		if _, isSig := x.info.TypeOf(ix.X).(*types.Signature); isSig {
			fun = ix.X
		}
	}
	if ix, ok := fun.(*ast.IndexListExpr); ok {
		fun = ix.X
	}
	switch f := fun.(type) {
	case *ast.Ident:
		fn, _ = x.info.Uses[f].(*types.Func)
	case *ast.SelectorExpr:
		if sel := x.info.Selections[f]; sel != nil {
			if sel.Kind() == types.MethodVal {
				fn, _ = sel.Obj().(*types.Func)
				recvExpr = f.X
				selIdx = sel.Index()
				selRecvT = sel.Recv()
			}
		} else {
			fn, _ = x.info.Uses[f.Sel].(*types.Func)
		}
	}
	if fn != nil {
		fn = fn.Origin()
		evalRecv := func(st *State, k2 func(*State, *Term)) {
			if recvExpr == nil {
				k2(st, nil)
				return
			}
			x.expr(st, recvExpr, func(st *State, r Term) {
				// follow embedded fields to the method's receiver
				t := selRecvT
				cur := r
				for _, fi := range selIdx[:len(selIdx)-1] {
					named, isPtr := derefNamed(t)
					stt := structOf(t)
					if stt == nil || named == nil {
						x.undecide("embedded receiver at %s", x.prog.pos(e))
						return
					}
					f := stt.Field(fi)
					if isExternalStruct(named) {
						break // receiver reached through an external struct: its contract is stated over the outer value
					}
					if isPtr {
						cur = x.readField(st, fieldKeyOf(named, f), x.d.sortOf(f.Type()), cur.S)
					} else {
						cur = Term{S: fmt.Sprintf("(%s_%s %s)", cur.Sort, sanitizeSym(f.Name()), cur.S), Sort: x.d.sortOf(f.Type())}
					}
					cur.T = f.Type()
					t = f.Type()
				}
				k2(st, &cur)
			})
		}
		evalRecv(st, func(st *State, recv *Term) {
			x.args(st, e, fn.Type().(*types.Signature), func(st *State, args []Term) {
				inst, _ := x.info.TypeOf(e.Fun).(*types.Signature)
				x.staticCallInst(st, e, fn, inst, recv, args, k)
			})
		})
		return
	}
	// function value
	x.expr(st, e.Fun, func(st *State, f Term) {
		ft := x.info.TypeOf(e.Fun)
		sig, _ := ft.Underlying().(*types.Signature)
		if sig == nil {
			x.undecide("call of non-function at %s", x.prog.pos(e))
			return
		}
		x.args(st, e, sig, func(st *State, args []Term) {
			x.funValueCall(st, e, f, ft, sig, args, k)
		})
	})
}

// args evaluates call arguments, packing variadic ones into a slice.
func (x *Exec) args(st *State, e *ast.CallExpr, sig *types.Signature, k func(*State, []Term)) {
	if len(e.Args) == 1 && sig.Params().Len() > 1 && !sig.Variadic() {
		if ce, ok := ast.Unparen(e.Args[0]).(*ast.CallExpr); ok {
			if tup, ok := x.info.TypeOf(ce).(*types.Tuple); ok && tup.Len() == sig.Params().Len() {
				x.call(st, ce, func(st *State, rs []Term) {
					var out []Term
					for i, v := range rs {
						out = append(out, x.conv(st, v, sig.Params().At(i).Type()))
					}
					k(st, out)
				})
				return
			}
		}
	}
	x.exprList(st, e.Args, func(st *State, vs []Term) {
		np := sig.Params().Len()
		if len(vs) == 1 && np > 1 && !sig.Variadic() {
			x.undecide("multi-value argument at %s", x.prog.pos(e))
			return
		}
		var out []Term
		if sig.Variadic() && !e.Ellipsis.IsValid() {
			for i := 0; i < np-1; i++ {
				out = append(out, x.conv(st, vs[i], sig.Params().At(i).Type()))
			}
			st1 := sig.Params().At(np - 1).Type().(*types.Slice)
			es := x.d.sortOf(st1.Elem())
			var ss []string
			for _, v := range vs[np-1:] {
				ss = append(ss, x.conv(st, v, st1.Elem()).S)
			}
			sl := x.newSlice(st, es, ss)
			sl.T = st1
			out = append(out, sl)
		} else {
			for i, v := range vs {
				out = append(out, x.conv(st, v, sig.Params().At(i).Type()))
			}
		}
		k(st, out)
	})
}

func (x *Exec) builtin(st *State, name string, e *ast.CallExpr, k func(*State, []Term)) {
	switch name {
	case "len", "cap":
		x.expr(st, e.Args[0], func(st *State, v Term) {
			switch v.Sort {
			case "Slice":
				sel := "s_len"
				if name == "cap" {
					sel = "s_cap"
				}
				k(st, []Term{{S: fmt.Sprintf("(%s %s)", sel, v.S), Sort: "Int", T: types.Typ[types.Int]}})
			case "Str":
				k(st, []Term{{S: "(slen " + v.S + ")", Sort: "Int", T: types.Typ[types.Int]}})
			case "Nil":
				k(st, []Term{tInt("0")})
			default:
				f := x.d.fun("len_"+sanitizeSym(v.Sort), []string{v.Sort}, "Int")
				r := fmt.Sprintf("(%s %s)", f, v.S)
				st.assume("(>= " + r + " 0)")
				k(st, []Term{{S: r, Sort: "Int", T: types.Typ[types.Int]}})
			}
		})
	case "panic":
		x.exprList(st, e.Args, func(st *State, _ []Term) {
			x.panicHere(st, "no-panic[explicit]", e)
		})
	case "append":
		x.expr(st, e.Args[0], func(st *State, sl Term) {
			st0 := x.info.TypeOf(e.Args[0])
			if sl.Sort == "Nil" {
				sl = Term{S: "nilSlice", Sort: "Slice"}
				st0 = x.info.TypeOf(e)
			}
			es, et := x.elemSortOf(st0)
			if e.Ellipsis.IsValid() {
				x.expr(st, e.Args[1], func(st *State, more Term) {
					x.appendSlice(st, sl, more, es, x.info.TypeOf(e), k)
				})
				return
			}
			x.exprList(st, e.Args[1:], func(st *State, vs []Term) {
				var ss []string
				for _, v := range vs {
					ss = append(ss, x.conv(st, v, et).S)
				}
				x.appendVals(st, sl, ss, es, x.info.TypeOf(e), k)
			})
		})
	case "make":
		t := x.info.TypeOf(e)
		switch t.Underlying().(type) {
		case *types.Map, *types.Chan:
			r := x.alloc(st, "make")
			r.T = t
			k(st, []Term{r})
		case *types.Slice:
			// make([]T, n[, c]): a fresh backing array of zero values
			es, et := x.elemSortOf(t)
			x.exprList(st, e.Args[1:], func(st *State, vs []Term) {
				n := vs[0].S
				c := n
				if len(vs) > 1 {
					c = vs[1].S
				}
				x.oblige(st, "no-panic", "no-panic[make-len]", fmt.Sprintf("(and (<= 0 %s) (<= %s %s))", n, n, c), e)
				st.assume(fmt.Sprintf("(and (<= 0 %s) (<= %s %s))", n, n, c))
				base := x.alloc(st, "arr")
				asort := "(Array Int " + es + ")"
				zero := fmt.Sprintf("((as const %s) %s)", asort, x.d.zeroOf(et).S)
				x.writeField(st, elemKey(es), asort, base.S, zero)
				k(st, []Term{{S: fmt.Sprintf("(mkSlice %s 0 %s %s)", base.S, n, c), Sort: "Slice", T: t}})
			})
		default:
			x.undecide("make of %s at %s", t, x.prog.pos(e))
		}
	case "copy":
		// copy(dst, src): min(len(dst), len(src)) elements, as if through a temporary (overlap-safe)
		x.expr(st, e.Args[0], func(st *State, dst Term) {
			x.expr(st, e.Args[1], func(st *State, src Term) {
				if dst.Sort != "Slice" || src.Sort != "Slice" {
					if dst.Sort == "Nil" || src.Sort == "Nil" {
						k(st, []Term{tInt("0")})
						return
					}
					x.undecide("copy of %s at %s", src.Sort, x.prog.pos(e))
					return
				}
				es, _ := x.elemSortOf(x.info.TypeOf(e.Args[0]))
				asort := "(Array Int " + es + ")"
				m := fmt.Sprintf("(ite (<= (s_len %s) (s_len %s)) (s_len %s) (s_len %s))", dst.S, src.S, dst.S, src.S)
				arrD := x.elemArr(st, es, "(s_base "+dst.S+")")
				arrS := x.elemArr(st, es, "(s_base "+src.S+")")
				x.checkWriteFrame(st, elemKey(es), "(s_base "+dst.S+")", e)
				res := x.d.fresh("copied", asort)
				st.pc = append(st.pc, fmt.Sprintf("(forall ((q!b Int)) (= (select %s q!b) (ite (and (<= (s_off %s) q!b) (< q!b (+ (s_off %s) %s))) (select %s (+ (s_off %s) (- q!b (s_off %s)))) (select %s q!b))))", res, dst.S, dst.S, m, arrS, src.S, dst.S, arrD))
				st.assume(sImp(fmt.Sprintf("(> %s 0)", m), sEq(fmt.Sprintf("(select %s (s_off %s))", res, dst.S), fmt.Sprintf("(select %s (s_off %s))", arrS, src.S))))
				x.writeField(st, elemKey(es), asort, "(s_base "+dst.S+")", res)
				k(st, []Term{{S: m, Sort: "Int", T: types.Typ[types.Int]}})
			})
		})
	case "new":
		t := x.info.TypeOf(e)
		r := x.alloc(st, "new")
		r.T = t
		et := t.Underlying().(*types.Pointer).Elem()
		es := x.d.sortOf(et)
		x.writeField(st, "cell:"+es, es, r.S, x.d.zeroOf(et).S)
		k(st, []Term{r})
	default:
		x.undecide("builtin %s at %s", name, x.prog.pos(e))
	}
}

func (x *Exec) panicHere(st *State, name string, pos ast.Node) {
	// allowed if the unit's panics-only-if clause holds on this path
	goal := "false"
	if x.unit.Spec != nil {
		var alts []string
		for _, c := range x.unit.Spec.clauses("panics-only-if") {
			alts = append(alts, x.cxBool(x.entry, c.Expr, x.entry, nil))
		}
		if len(alts) > 0 {
			goal = sOr(alts...)
		}
	}
	x.oblige(st, "no-panic", name, goal, pos)
	x.pathEnd()
}

// appendVals: both Go behaviours (in place when capacity allows, reallocation otherwise).
func (x *Exec) appendVals(st *State, sl Term, vals []string, es string, rt types.Type, k func(*State, []Term)) {
	n := len(vals)
	if n == 0 {
		k(st, []Term{sl})
		return
	}
	key := elemKey(es)
	asort := "(Array Int " + es + ")"
	// in place
	st1 := st.clone()
	st1.assume(fmt.Sprintf("(<= (+ (s_len %s) %d) (s_cap %s))", sl.S, n, sl.S))
	st1.assume(sNot(sEq("(s_base "+sl.S+")", "nilRef")))
	arr := x.elemArr(st1, es, "(s_base "+sl.S+")")
	for i, v := range vals {
		arr = fmt.Sprintf("(store %s (+ (s_off %s) (s_len %s) %d) %s)", arr, sl.S, sl.S, i, v)
	}
	x.writeField(st1, key, asort, "(s_base "+sl.S+")", arr)
	k(st1, []Term{{S: fmt.Sprintf("(mkSlice (s_base %s) (s_off %s) (+ (s_len %s) %d) (s_cap %s))", sl.S, sl.S, sl.S, n, sl.S), Sort: "Slice", T: rt}})
	// reallocate: the new backing array is a copy (same offsets), then the stores
	st.assume(fmt.Sprintf("(> (+ (s_len %s) %d) (s_cap %s))", sl.S, n, sl.S))
	nb := x.alloc(st, "arr")
	arr2 := x.elemArr(st, es, "(s_base "+sl.S+")")
	for i, v := range vals {
		arr2 = fmt.Sprintf("(store %s (+ (s_off %s) (s_len %s) %d) %s)", arr2, sl.S, sl.S, i, v)
	}
	x.writeField(st, key, asort, nb.S, arr2)
	ncap := x.d.fresh("cap", "Int")
	st.assume(fmt.Sprintf("(>= %s (+ (s_len %s) %d))", ncap, sl.S, n))
	k(st, []Term{{S: fmt.Sprintf("(mkSlice %s (s_off %s) (+ (s_len %s) %d) %s)", nb.S, sl.S, sl.S, n, ncap), Sort: "Slice", T: rt}})
}

// appendSlice: append(a, b...) — result is a fresh-or-shared slice whose
// elements are a's followed by b's; modelled through an uninterpreted copy
// with pointwise facts instantiated lazily on read is too heavy, so the
// result is abstract: length known, elements given by ground axioms on demand.
func (x *Exec) appendSlice(st *State, a, b Term, es string, rt types.Type, k func(*State, []Term)) {
	nb := x.alloc(st, "arr")
	key := elemKey(es)
	asort := "(Array Int " + es + ")"
	cat := x.d.fun("arrcat_"+sanitizeSym(es), []string{asort, "Int", "Int", asort, "Int"}, asort)
	arrA := x.elemArr(st, es, "(s_base "+a.S+")")
	arrB := x.elemArr(st, es, "(s_base "+b.S+")")
	res := fmt.Sprintf("(%s %s (s_off %s) (s_len %s) %s (s_off %s))", cat, arrA, a.S, a.S, arrB, b.S)
	x.writeField(st, key, asort, nb.S, res)
	r := Term{S: fmt.Sprintf("(mkSlice %s 0 (+ (s_len %s) (s_len %s)) (+ (s_len %s) (s_len %s)))", nb.S, a.S, b.S, a.S, b.S), Sort: "Slice", T: rt}
	st.pc = append(st.pc, fmt.Sprintf("(forall ((q!b Int)) (=> (and (<= 0 q!b) (< q!b (s_len %s))) (= (select %s q!b) (select %s (+ (s_off %s) q!b)))))", a.S, res, arrA, a.S))
	st.pc = append(st.pc, fmt.Sprintf("(forall ((q!b Int)) (=> (and (<= 0 q!b) (< q!b (s_len %s))) (= (select %s (+ (s_len %s) q!b)) (select %s (+ (s_off %s) q!b)))))", b.S, res, a.S, arrB, b.S))
	// ground facts for the first element of each part (what the units in scope read)
	st.assume(sImp(fmt.Sprintf("(> (s_len %s) 0)", a.S), sEq(fmt.Sprintf("(select %s 0)", res), fmt.Sprintf("(select %s (s_off %s))", arrA, a.S))))
	st.assume(sImp(fmt.Sprintf("(> (s_len %s) 0)", b.S), sEq(fmt.Sprintf("(select %s (s_len %s))", res, a.S), fmt.Sprintf("(select %s (s_off %s))", arrB, b.S))))
	k(st, []Term{r})
}

// ---------------------------------------------------------------- closures

func (x *Exec) makeClosure(st *State, lit *ast.FuncLit) Term {
	u := x.prog.UnitOfLit[lit]
	f := Term{S: x.d.fresh("clo_"+u.Key, "Fun"), Sort: "Fun", T: x.info.TypeOf(lit)}
	st.assume(sNot(sEq(f.S, "nilF")))
	st.closures[f.S] = u
	if u.Spec == nil && st.approx == "" && x.unit.Pkg.Name == "seq" {
		// nothing is known about a literal without a contract of its own (no ghost attributes, no refinement): what is proved about
		// the value it becomes is proved about an unknown function
		st.approx = fmt.Sprintf("closure literal %s has no contract", u.Name)
	}
	if u.Spec != nil && u.Spec.Hint != "" && u.Natural != u.Spec.Hint && st.approx == "" {
		// the literal got its contract (and ghost attributes) by position only
		st.approx = fmt.Sprintf("closure contract of %s bound by position: hint %q does not match the literal's natural name %q", u.Name, u.Spec.Hint, u.Natural)
	}
	if u.Spec != nil {
		for _, c := range u.Spec.clauses("ghost") {
			if x.ghostReady(st, u, c) {
				st.assume(x.cxBoolIn(st, c.Expr, st, map[string]Term{"self": f}, u))
			} else {
				st.pending = append(st.pending, pendingGhost{f, u, c})
			}
		}
	}
	return f
}

// ghostReady: every late-bound variable mentioned by the clause has been assigned.
func (x *Exec) ghostReady(st *State, u *UnitInfo, c *Clause) bool {
	for _, v := range u.FreeVars {
		if x.prog.LateAny[v] && mentions(c.Expr, v.Name()) {
			if _, unset := st.ghost[x.lateKey(v)]; unset {
				return false
			}
		}
	}
	return true
}

func (x *Exec) afterAssignVar(st *State, v *types.Var) {
	delete(st.ghost, x.lateKey(v))
	if len(st.pending) == 0 {
		return
	}
	var rest []pendingGhost
	for _, p := range st.pending {
		if x.ghostReady(st, p.unit, p.clause) {
			st.assume(x.cxBoolIn(st, p.clause.Expr, st, map[string]Term{"self": p.fun}, p.unit))
		} else {
			rest = append(rest, p)
		}
	}
	st.pending = rest
}

// ---------------------------------------------------------------- static calls

func (x *Exec) specOfFunc(fn *types.Func) (*UnitSpec, *UnitInfo) {
	if u := x.prog.UnitOfFn[fn]; u != nil {
		return u.Spec, u
	}
	// extern: pkg.Name or pkg.(*T).Name / pkg.T.Name
	full := fn.FullName() // e.g. unicode/utf8.DecodeRuneInString, (*reflect.MapIter).Next
	cands := []string{full}
	if fn.Pkg() != nil {
		short := strings.Replace(full, fn.Pkg().Path(), fn.Pkg().Name(), 1)
		cands = append(cands, short)
	}
	for _, c := range cands {
		if s := x.prog.Contracts.Units["extern:"+c]; s != nil {
			return s, nil
		}
	}
	return nil, nil
}

func (x *Exec) staticCall(st *State, e *ast.CallExpr, fn *types.Func, recv *Term, args []Term, k func(*State, []Term)) {
	x.staticCallInst(st, e, fn, nil, recv, args, k)
}

// staticCallInst: inst is the instantiated signature at the call site (result sorts of generic callees).
func (x *Exec) staticCallInst(st *State, e *ast.CallExpr, fn *types.Func, inst *types.Signature, recv *Term, args []Term, k func(*State, []Term)) {
	spec, u := x.specOfFunc(fn)
	sig := fn.Type().(*types.Signature)
	if inst != nil && inst.Params().Len() == sig.Params().Len() && inst.Results().Len() == sig.Results().Len() {
		sig = inst
	}
	if recv != nil && recv.Sort == "Ref" && u != nil {
		x.oblige(st, "requires", "call["+u.Key+"].requires[recv-non-nil]", sNot(sEq(recv.S, "nilRef")), e)
		st.assume(sNot(sEq(recv.S, "nilRef")))
	}
	if spec != nil && u != nil && u.Body != nil && (len(spec.Params) != sig.Params().Len() || len(spec.Results) != sig.Results().Len()) {
		// the contract no longer matches the callee's signature: fall back to its body
		x.assumed["contract of "+fn.FullName()+" does not match its signature; callee inlined"] = true
		spec = nil
	}
	if spec != nil {
		if spec.Kind == "extern" || spec.Flags["trusted"] {
			x.assumed[fmt.Sprintf("assumed contract of %s (%s)", fn.FullName(), spec.Kind)] = true
		}
		if spec.Flags["trusted"] && u != nil && u.Body != nil {
			// trusted for the pinned body only (see verifyUnit)
			if want, ok := x.en.trustedPins()[u.Name]; !ok || want != x.en.bodyPin(u) {
				x.undecide("call of %s: its body changed since its trusted contract was reviewed (pin %s, now %s); the contract is not trusted for this body", u.Name, want, x.en.bodyPin(u))
			}
		}
		x.contractCall(st, e, spec, sig, fn.FullName(), recv, args, nil, k)
		return
	}
	if u != nil && st.depth < 4 && u.Body != nil {
		// explicit or inferred type arguments of a generic callee
		var id *ast.Ident
		switch f := ast.Unparen(e.Fun).(type) {
		case *ast.Ident:
			id = f
		case *ast.IndexExpr:
			id, _ = f.X.(*ast.Ident)
		case *ast.IndexListExpr:
			id, _ = f.X.(*ast.Ident)
		}
		saved := x.tsubst
		if id != nil {
			osig := fn.Type().(*types.Signature)
			if inst, ok := x.info.Instances[id]; ok && osig.TypeParams() != nil {
				m := map[string]types.Type{}
				for i := 0; i < osig.TypeParams().Len() && i < inst.TypeArgs.Len(); i++ {
					m[osig.TypeParams().At(i).Obj().Name()] = inst.TypeArgs.At(i)
				}
				x.tsubst = m
			}
		}
		x.inlineCall(st, u, recv, args, func(st *State, rs []Term) {
			cur := x.tsubst
			x.tsubst = saved
			k(st, rs)
			x.tsubst = cur
		})
		x.tsubst = saved
		return
	}
	x.undecide("call of %s without contract at %s", fn.FullName(), x.prog.pos(e))
}

func (x *Exec) inlineCall(st *State, u *UnitInfo, recv *Term, args []Term, k func(*State, []Term)) {
	saved := x.info
	x.info = u.Pkg.TypesInfo
	st.depth++
	if u.Recv != nil && recv != nil {
		st.vars[u.Recv] = *recv
	}
	for i := 0; i < u.Sig.Params().Len(); i++ {
		st.vars[u.Sig.Params().At(i)] = args[i]
	}
	var resVars []*types.Var
	for i := 0; i < u.Sig.Results().Len(); i++ {
		rv := u.Sig.Results().At(i)
		if rv.Name() != "" {
			st.vars[rv] = x.d.zeroOf(rv.Type())
			resVars = append(resVars, rv)
		}
	}
	done := func(st *State, rs []Term) {
		st.depth--
		inf := x.info
		x.info = saved
		var out []Term
		for i, r := range rs {
			out = append(out, x.conv(st, r, u.Sig.Results().At(i).Type()))
		}
		k(st, out)
		x.info = inf
	}
	fr := &frame{onReturn: done, results: resVars}
	x.stmts(st, u.Body.List, fr, func(st *State) {
		var rs []Term
		for _, rv := range resVars {
			rs = append(rs, st.vars[rv])
		}
		x.runDefers(st, func(st *State) { done(st, rs) })
	})
	x.info = saved
}

// contractCall applies a contract at a call site: requires become
// obligations, the modifies clause is havocked, ensures are assumed.
func (x *Exec) contractCall(st *State, pos ast.Node, spec *UnitSpec, sig *types.Signature, what string, recv *Term, args []Term, self *Term, k func(*State, []Term)) {
	binds := map[string]Term{}
	if recv != nil && spec.Recv != "" {
		binds[spec.Recv] = *recv
	} else if recv != nil && spec.Kind == "extern" {
		args = append([]Term{*recv}, args...)
	}
	if self != nil {
		binds["self"] = *self
	}
	if len(spec.Params) != len(args) {
		x.undecide("contract of %s binds %d parameters, call has %d", spec.Key, len(spec.Params), len(args))
		return
	}
	for i, p := range spec.Params {
		if p != "_" {
			binds[p] = args[i]
		}
	}
	short := spec.Key
	x.callOrd[short]++
	tag := fmt.Sprintf("call[%s]", short)
	for i, c := range spec.clauses("requires") {
		g := x.cxBoolIn(st, c.Expr, st, binds, nil)
		x.oblige(st, "requires", fmt.Sprintf("%s.requires[%s]", tag, clauseLabel(c, i)), g, pos)
		st.assume(g)
	}
	pre := st.snapshot()
	// effects
	refines := spec.clauses("refines")
	if len(refines) > 0 {
		if x.hooks == nil {
			x.undecide("refines clause outside package seq")
			return
		}
		stTerm := x.cxTermIn(st, refines[0].Expr, pre, binds, nil)
		coT, ok := binds["$co"]
		if !ok {
			coT = x.hooks.coOf(x, st, spec, binds)
		}
		x.hooks.runM(x, st, stTerm.S, coT.S)
	}
	pureCallee := len(spec.clauses("modifies")) == 0 && len(refines) == 0
	if pureCallee {
		for _, c := range spec.clauses("ensures") {
			if strings.Contains(c.Src, "fresh(") {
				pureCallee = false
			}
		}
	}
	if !pureCallee && (len(refines) == 0 || len(spec.clauses("modifies")) > 0) {
		x.applyModifies(st, spec, pre, binds)
	}
	// results
	var results []Term
	for i := 0; i < sig.Results().Len(); i++ {
		rt := sig.Results().At(i).Type()
		so := x.d.sortOf(rt)
		r := Term{S: x.d.fresh("ret_"+short, so), Sort: so, T: rt}
		results = append(results, r)
		if i < len(spec.Results) {
			binds[spec.Results[i]] = r
		}
	}
	for _, c := range spec.clauses("ensures") {
		if strings.HasPrefix(c.Name, "local:") {
			continue // exit obligation over the callee's locals: not part of its caller-visible contract
		}
		st.assume(x.cxBoolIn(st, c.Expr, pre, binds, nil))
	}
	for _, r := range results {
		x.noteRead(st, r)
		x.ifaceWellTyped(st, r, r.T)
	}
	x.havocMutableCaptures(st)
	k(st, results)
}

// The only AST locations pass 2 writes: the initialiser and keyword position of
// for / switch / type-switch statements (directly or through pointers to them).
var astInitKeys = map[string]bool{
	"ast.ForStmt.Init": true, "ast.ForStmt.For": true, "ast.SwitchStmt.Init": true, "ast.SwitchStmt.Switch": true,
	"ast.TypeSwitchStmt.Init": true, "ast.TypeSwitchStmt.Switch": true, "cell:Iface": true, "cell:Int": true,
}

// havocASTKey: a callee that rewrites a subtree may change these fields of any
// node of that subtree; by tree-ness (A-tree) not those of the nodes the
// calling unit itself received as parameters, nor of cells it was handed.
func (x *Exec) havocASTKey(st *State, key, valSort string) {
	v := x.fieldVer(st, key, valSort)
	name := x.d.fresh("H_"+key, v.sort)
	nv := &HeapVer{term: name, sort: v.sort, parent: v, havoc: true, wild: true, valSort: valSort}
	st.fields[key] = nv
	x.assumed["A-tree: the AST is a tree - rewriting a sub-statement does not change the initialiser/position fields of the statement the calling unit is working on"] = true
	for _, keep := range x.ownNodeRefs(st) {
		st.assume(sEq(fmt.Sprintf("(select %s %s)", name, keep), fmt.Sprintf("(select %s %s)", v.term, keep)))
	}
}

// ownNodeRefs: references of the AST nodes / cells the unit received as parameters.
func (x *Exec) ownNodeRefs(st *State) []string {
	var out []string
	if x.unit.Sig == nil {
		return nil
	}
	for i := 0; i < x.unit.Sig.Params().Len(); i++ {
		pv := x.unit.Sig.Params().At(i)
		t, ok := x.entry.vars[pv]
		if !ok {
			continue
		}
		switch t.Sort {
		case "Ref":
			out = append(out, t.S)
		case "Iface":
			out = append(out, "(iref "+t.S+")")
		}
	}
	return out
}

// havocMutableCaptures: any call may run a closure that writes a mutable captured variable.
func (x *Exec) havocMutableCaptures(st *State) {
	for o := range st.vars {
		if v, ok := o.(*types.Var); ok && x.prog.Mutable[v] {
			so := x.d.sortOf(v.Type())
			st.vars[v] = Term{S: x.d.fresh("cap_"+v.Name(), so), Sort: so, T: v.Type()}
		}
	}
}

// applyModifies havocs what the callee may change. Allocation by the callee is
// always possible: the clock advances and fields of fresh objects are free.
func (x *Exec) applyModifies(st *State, spec *UnitSpec, pre *State, binds map[string]Term) {
	mods := spec.clauses("modifies")
	clk := st.clk
	nclk := x.d.fresh("clk", "Int")
	st.assume(fmt.Sprintf("(<= %s %s)", clk, nclk))
	st.clk = nclk
	// which keys get which exceptions
	exc := map[string][]string{}
	excSort := map[string]string{}
	wildKeys := map[string]bool{}
	modelExc := map[string][]string{}
	modW := false
	modAST := false
	for _, m := range mods {
		for _, loc := range m.Locs {
			switch l := loc.(type) {
			case *cxIdent:
				if l.Name == "W" {
					modW = true
				}
				if l.Name == "AST" {
					modAST = true
				}
			case *cxSel:
				obj := x.cxTermIn(st, l.X, pre, binds, nil)
				if l.Sel == "$all" {
					continue
				}
				key, vs := x.fieldKeyFor(obj, l.Sel)
				if key == "" {
					x.undecide("modifies: unknown field %s in %s", l.Sel, loc.cxs())
					return
				}
				excSort[key] = vs
				exc[key] = append(exc[key], obj.S)
			case *cxCall:
				switch l.Fun {
				case "fieldmap":
					key := x.fieldmapKey(l)
					wildKeys[key] = true
				case "elems":
					sl := x.cxTermIn(st, l.Args[0], pre, binds, nil)
					es, _ := x.elemSortOf(sl.T)
					exc[elemKey(es)] = append(exc[elemKey(es)], "(s_base "+sl.S+")")
					excSort[elemKey(es)] = "(Array Int " + es + ")"
				case "cell":
					p := x.cxTermIn(st, l.Args[0], pre, binds, nil)
					et := p.T.Underlying().(*types.Pointer).Elem()
					es := x.d.sortOf(et)
					exc["cell:"+es] = append(exc["cell:"+es], p.S)
					excSort["cell:"+es] = es
				default:
					if mu, ok := x.prog.Contracts.Models[l.Fun]; ok {
						obj := x.cxTermIn(st, l.Args[0], pre, binds, nil)
						if f := transparentModel(mu); f != "" {
							if obj.T == nil {
								obj.T = x.modelParamType(mu, 0)
							}
							key, vs := x.fieldKeyFor(obj, f)
							excSort[key] = vs
							exc[key] = append(exc[key], obj.S)
						} else if x.revealed[l.Fun] {
							// body mode: the model is its definition, so the callee may change every location the definition reads
							for _, fp := range x.modelFootprintAll(st, mu, obj, pre) {
								excSort[fp.key] = fp.vs
								exc[fp.key] = append(exc[fp.key], fp.ref)
							}
						} else {
							modelExc[l.Fun] = append(modelExc[l.Fun], obj.S)
						}
					} else {
						x.undecide("modifies: unsupported location %s", loc.cxs())
						return
					}
				}
			}
		}
	}
	if modW {
		st.ghost["W"] = Term{S: x.d.fresh("W", "World"), Sort: "World"}
	}
	for key := range wildKeys {
		if _, ok := st.fields[key]; !ok {
			if vs := x.fieldSortByKey(key); vs != "" {
				x.fieldVer(st, key, vs)
			}
		}
	}
	for key, vs := range excSort {
		if _, ok := st.fields[key]; !ok {
			x.fieldVer(st, key, vs)
		}
	}
	for _, key := range sortedKeys(st.fields) {
		v := st.fields[key]
		wild := wildKeys[key]
		if modAST && astInitKeys[key] {
			x.havocASTKey(st, key, v.valSort)
			continue
		}
		x.havocField(st, key, v.valSort, clk, exc[key], wild)
	}
	if modAST {
		st.astEpoch++
	}
	for _, name := range sortedKeys(st.models) {
		v := st.models[name]
		nm := x.d.fresh("MF_"+name, v.sort)
		st.models[name] = &HeapVer{term: nm, sort: v.sort, parent: v, havoc: true, clk: clk, except: modelExc[name], valSort: v.valSort}
	}
}

func (x *Exec) havocModels(st *State, clk string, except []string, wild bool) {
	for _, name := range sortedKeys(st.models) {
		v := st.models[name]
		nm := x.d.fresh("MF_"+name, v.sort)
		st.models[name] = &HeapVer{term: nm, sort: v.sort, parent: v, havoc: true, clk: clk, wild: wild, valSort: v.valSort}
	}
}

// fieldKeyFor finds the heap key of field name on the (pointer-to-struct) type of obj.
func (x *Exec) fieldKeyFor(obj Term, name string) (string, string) {
	if obj.T == nil {
		return "", ""
	}
	named, _ := derefNamed(obj.T)
	stt := structOf(obj.T)
	if named == nil || stt == nil {
		return "", ""
	}
	for i := 0; i < stt.NumFields(); i++ {
		if stt.Field(i).Name() == name {
			key := fieldKeyOf(named, stt.Field(i))
			vs := x.d.sortOf(stt.Field(i).Type())
			// make sure the field array exists so that it takes part in havoc
			return key, vs
		}
	}
	return "", ""
}

// checkWriteFrame: a heap write in a unit with a modifies clause must hit a
// declared location or an object allocated by the unit itself.
func (x *Exec) checkWriteFrame(st *State, key, ref string, pos ast.Node) {
	if x.unit.Spec == nil || st.depth > 0 {
		return
	}
	mods := x.unit.Spec.clauses("modifies")
	if len(mods) == 0 && len(x.unit.Spec.clauses("ensures")) == 0 && len(x.unit.Spec.clauses("refines")) == 0 {
		return
	}
	alts := []string{fmt.Sprintf("(>= (alloc %s) %s)", ref, x.entry.clk)}
	for _, m := range mods {
		for _, loc := range m.Locs {
			switch l := loc.(type) {
			case *cxIdent:
				if l.Name == "AST" && astInitKeys[key] {
					alts = append(alts, "true")
				}
				if l.Name == "elems" && strings.HasPrefix(key, "elem:") {
					alts = append(alts, "true")
				}
			case *cxSel:
				obj := x.cxTermIn(x.entry, l.X, x.entry, x.hdr, nil)
				k2, _ := x.fieldKeyFor(obj, l.Sel)
				if k2 == key {
					alts = append(alts, sEq(ref, obj.S))
				}
			case *cxCall:
				if l.Fun == "fieldmap" && x.fieldmapKey(l) == key {
					alts = append(alts, "true")
				}
				if mu, ok := x.prog.Contracts.Models[l.Fun]; ok && x.revealed[l.Fun] {
					// a model location covers the fields its definition reads of that object
					obj := x.cxTermIn(x.entry, l.Args[0], x.entry, x.hdr, nil)
					for _, o := range x.modelFootprint(mu, obj, key) {
						alts = append(alts, sEq(ref, o))
					}
				}
			}
		}
	}
	x.oblige(st, "frame", "frame[write "+key+"]", sOr(alts...), pos)
}

func (x *Exec) modelReadsKey(mu *UnitSpec, obj Term, key string) bool {
	return len(x.modelFootprint(mu, obj, key)) > 0
}

type footprintLoc struct{ key, vs, ref string }

// modelFootprintAll: every heap location (field of an object, element array of a slice) that the
// definition of model mu reads when applied to obj, evaluated in state pre.
func (x *Exec) modelFootprintAll(st *State, mu *UnitSpec, obj Term, pre *State) []footprintLoc {
	var out []footprintLoc
	if obj.T == nil {
		obj.T = x.modelParamType(mu, 0)
	}
	env := &cxEnv{live: st, ev: pre, old: pre, binds: map[string]Term{}, bound: map[string]Term{}}
	var evalPath func(e cx) (Term, bool)
	evalPath = func(e cx) (Term, bool) {
		switch y := e.(type) {
		case *cxIdent:
			if len(mu.Params) > 0 && y.Name == mu.Params[0] {
				return obj, true
			}
		case *cxSel:
			base, ok := evalPath(y.X)
			if !ok {
				return Term{}, false
			}
			saved := x.undecided
			r := x.cxField(env, base, y.Sel, e)
			bad := len(x.undecided) > len(saved)
			x.undecided = saved
			return r, !bad
		}
		return Term{}, false
	}
	var walk func(e cx)
	walk = func(e cx) {
		switch y := e.(type) {
		case *cxSel:
			if base, ok := evalPath(y.X); ok {
				if k2, vs := x.fieldKeyFor(base, y.Sel); k2 != "" {
					out = append(out, footprintLoc{k2, vs, base.S})
				}
			}
			walk(y.X)
		case *cxIdx:
			if sl, ok := evalPath(y.X); ok && sl.Sort == "Slice" && sl.T != nil {
				es, _ := x.elemSortOf(sl.T)
				out = append(out, footprintLoc{elemKey(es), "(Array Int " + es + ")", "(s_base " + sl.S + ")"})
			}
			walk(y.X)
			walk(y.I)
		case *cxBin:
			walk(y.L)
			walk(y.R)
		case *cxUn:
			walk(y.X)
		case *cxCall:
			for _, a := range y.Args {
				walk(a)
			}
		case *cxIte:
			walk(y.C)
			walk(y.A)
			walk(y.B)
		case *cxQuant:
			walk(y.Body)
		case *cxLet:
			walk(y.Val)
			walk(y.Body)
		}
	}
	walk(mu.ModelDef)
	return out
}

// modelFootprint: the objects whose field `key` the definition of model mu reads
// when applied to obj (selector chains rooted at the model's first parameter).
func (x *Exec) modelFootprint(mu *UnitSpec, obj Term, key string) []string {
	var out []string
	if obj.T == nil {
		obj.T = x.modelParamType(mu, 0)
	}
	var evalPath func(e cx) (Term, bool)
	evalPath = func(e cx) (Term, bool) {
		switch y := e.(type) {
		case *cxIdent:
			if len(mu.Params) > 0 && y.Name == mu.Params[0] {
				return obj, true
			}
		case *cxSel:
			base, ok := evalPath(y.X)
			if !ok {
				return Term{}, false
			}
			env := &cxEnv{live: x.entry, ev: x.entry, old: x.entry, binds: map[string]Term{}, bound: map[string]Term{}}
			saved := x.undecided
			r := x.cxField(env, base, y.Sel, e)
			bad := len(x.undecided) > len(saved)
			x.undecided = saved
			return r, !bad
		}
		return Term{}, false
	}
	var walk func(e cx)
	walk = func(e cx) {
		switch y := e.(type) {
		case *cxSel:
			if base, ok := evalPath(y.X); ok {
				if k2, _ := x.fieldKeyFor(base, y.Sel); k2 == key {
					out = append(out, base.S)
				}
			}
			walk(y.X)
		case *cxBin:
			walk(y.L)
			walk(y.R)
		case *cxUn:
			walk(y.X)
		case *cxIdx:
			walk(y.X)
			walk(y.I)
		case *cxCall:
			for _, a := range y.Args {
				walk(a)
			}
		case *cxIte:
			walk(y.C)
			walk(y.A)
			walk(y.B)
		case *cxQuant:
			walk(y.Body)
		case *cxLet:
			walk(y.Val)
			walk(y.Body)
		}
	}
	walk(mu.ModelDef)
	return out
}

func (x *Exec) fieldmapKey(l *cxCall) string {
	// fieldmap(generator.result) parses as a selector expression
	if s, ok := l.Args[0].(*cxSel); ok {
		if id, ok := s.X.(*cxIdent); ok {
			return x.unit.Pkg.Name + "." + id.Name + "." + s.Sel
		}
		// fieldmap(pkg.Type.field), e.g. ast.ForStmt.Init
		if s2, ok := s.X.(*cxSel); ok {
			if id, ok := s2.X.(*cxIdent); ok {
				return id.Name + "." + s2.Sel + "." + s.Sel
			}
		}
	}
	return ""
}

// ---------------------------------------------------------------- function values

func typeContractKey(t types.Type) []string {
	var out []string
	if n, ok := types.Unalias(t).(*types.Named); ok {
		out = append(out, n.Obj().Name())
	}
	out = append(out, strings.ReplaceAll(types.TypeString(t.Underlying(), func(p *types.Package) string { return p.Name() }), " ", ""))
	return out
}

func (x *Exec) typeContract(t types.Type) *UnitSpec {
	for _, k := range typeContractKey(t) {
		if s := x.prog.Contracts.Units["type-contract:"+k]; s != nil {
			return s
		}
	}
	return nil
}

func (x *Exec) funValueCall(st *State, e *ast.CallExpr, f Term, ft types.Type, sig *types.Signature, args []Term, k func(*State, []Term)) {
	// a variable bound once to a closure literal: use that closure's own contract
	var target *UnitInfo
	if id, ok := ast.Unparen(e.Fun).(*ast.Ident); ok {
		if v, ok := x.info.Uses[id].(*types.Var); ok {
			if lit := x.prog.LateBound[v]; lit != nil {
				target = x.prog.UnitOfLit[lit]
			}
		}
	}
	if id, ok := ast.Unparen(e.Fun).(*ast.Ident); ok && target == nil {
		if v, ok := x.info.Uses[id].(*types.Var); ok {
			switch init := x.prog.InitBind[v].(type) {
			case *ast.FuncLit:
				target = x.prog.UnitOfLit[init]
			case *ast.SelectorExpr:
				// a method value bound once: recv.method
				if sel := x.info.Selections[init]; sel != nil && sel.Kind() == types.MethodVal {
					if rid, ok := init.X.(*ast.Ident); ok {
						if fn, ok := sel.Obj().(*types.Func); ok {
							inst, _ := x.info.TypeOf(init).(*types.Signature)
							x.ident(st, rid, func(st *State, recv Term) {
								x.staticCallInst(st, e, fn.Origin(), inst, &recv, args, k)
							})
							return
						}
					}
				}
			}
		}
	}
	boundOnce := target != nil // the callee variable is bound exactly once to this literal (capture analysis)
	if target == nil {
		target = st.closures[f.S]
	}
	if target != nil {
		st.assume(sNot(sEq(f.S, "nilF")))
	}
	x.oblige(st, "no-panic", "no-panic[nil-func]", sNot(sEq(f.S, "nilF")), e)
	st.assume(sNot(sEq(f.S, "nilF")))
	if target != nil {
		if spec := x.effectiveSpec(target); spec != nil {
			x.contractCall(st, e, spec, sig, target.Name, nil, args, &f, k)
			return
		}
		if (st.closures[f.S] == target || boundOnce) && st.depth < 4 {
			// a closure created on this path, or a helper literal a variable is bound to exactly once, without a contract: run its body
			x.inlineCall(st, target, nil, args, k)
			return
		}
	}
	if spec := x.typeContract(ft); spec != nil {
		x.contractCall(st, e, spec, sig, spec.Key, nil, args, &f, k)
		return
	}
	x.undecide("call through function value of type %s without type-contract at %s", ft, x.prog.pos(e))
}

// effectiveSpec: a closure literal's contract is its own clauses plus the
// universal contract of its contextual type.
func (x *Exec) effectiveSpec(u *UnitInfo) *UnitSpec {
	var tc *UnitSpec
	if u.CtxType != nil {
		tc = x.typeContract(u.CtxType)
	}
	if u.Spec == nil {
		return tc
	}
	if tc == nil {
		return u.Spec
	}
	own := u.Spec
	hasOwn := len(own.clauses("requires"))+len(own.clauses("ensures"))+len(own.clauses("refines")) > 0
	if hasOwn {
		return own
	}
	// merge: header names of the closure, clauses of the type-contract renamed positionally
	m := &UnitSpec{Kind: own.Kind, Key: own.Key, Params: own.Params, Results: own.Results, Loops: own.Loops, Flags: own.Flags, File: own.File, Line: own.Line, Reveal: own.Reveal}
	ren := map[string]string{}
	for i, p := range tc.Params {
		if i < len(own.Params) {
			ren[p] = own.Params[i]
		}
	}
	for i, r := range tc.Results {
		if i < len(own.Results) {
			ren[r] = own.Results[i]
		} else {
			m.Results = append(m.Results, r)
		}
	}
	m.Clauses = append(m.Clauses, own.Clauses...)
	for _, c := range tc.Clauses {
		nc := *c
		if c.Expr != nil {
			nc.Expr = renameCx(c.Expr, ren)
		}
		var locs []cx
		for _, l := range c.Locs {
			locs = append(locs, renameCx(l, ren))
		}
		nc.Locs = locs
		m.Clauses = append(m.Clauses, &nc)
	}
	return m
}

func renameCx(e cx, ren map[string]string) cx {
	switch y := e.(type) {
	case *cxIdent:
		if n, ok := ren[y.Name]; ok {
			return &cxIdent{n}
		}
		return y
	case *cxUn:
		return &cxUn{y.Op, renameCx(y.X, ren)}
	case *cxBin:
		return &cxBin{y.Op, renameCx(y.L, ren), renameCx(y.R, ren)}
	case *cxSel:
		return &cxSel{renameCx(y.X, ren), y.Sel}
	case *cxIdx:
		return &cxIdx{renameCx(y.X, ren), renameCx(y.I, ren)}
	case *cxCall:
		var as []cx
		for _, a := range y.Args {
			as = append(as, renameCx(a, ren))
		}
		return &cxCall{y.Fun, as}
	case *cxQuant:
		r2 := map[string]string{}
		for k, v := range ren {
			if k != y.Var {
				r2[k] = v
			}
		}
		return &cxQuant{y.Forall, y.Var, y.Sort, renameCx(y.Body, r2)}
	case *cxLet:
		r2 := map[string]string{}
		for k, v := range ren {
			if k != y.Var {
				r2[k] = v
			}
		}
		return &cxLet{y.Var, renameCx(y.Val, ren), renameCx(y.Body, r2)}
	case *cxIte:
		return &cxIte{renameCx(y.C, ren), renameCx(y.A, ren), renameCx(y.B, ren)}
	}
	return e
}

var _ = token.ADD
