package main

// Replay: concrete differential tests of the real code against executable
// renderings of the specifications (templates under /verif/replay/templates),
// injected in-package with `go test -overlay`; nothing is written to the repo.

import (
	"bytes"
	"context"
	"encoding/json"
	"fmt"
	"os"
	"os/exec"
	"path/filepath"
	"strings"
	"time"
)

type replayFamily struct {
	Template string // file under replay/templates
	Pkg      string // package directory relative to the repo
	Run      string // -run pattern
}

var replayFamilies = map[string]replayFamily{
	"seq-iter":  {"seq_iter_replay_test.go", "seq", "TestVerifReplayIter"},
	"seq-diff":  {"seq_diff_replay_test.go", "seq", "TestVerifReplayDiff"},
	"seq-stack": {"seq_stack_replay_test.go", "seq", "TestVerifReplayStack"},
}

// runReplayFamily runs the replay test of a family against the repo under check.
func (en *Engine) runReplayFamily(family, id, verif string) string {
	fam, ok := replayFamilies[family]
	if !ok {
		return "NO-REPLAY-TEMPLATE: no concrete replay harness exists for this obligation family"
	}
	src := filepath.Join(verif, "replay", "templates", fam.Template)
	if _, err := os.Stat(src); err != nil {
		return "NO-REPLAY-TEMPLATE: " + err.Error()
	}
	tmp, err := os.MkdirTemp("", "govc-replay-")
	if err != nil {
		return "REPLAY-ERROR: " + err.Error()
	}
	defer os.RemoveAll(tmp)
	ov := map[string]map[string]string{"Replace": {filepath.Join(en.repo, fam.Pkg, "zz_verif_replay_test.go"): src}}
	b, _ := json.Marshal(ov)
	ovPath := filepath.Join(tmp, "overlay.json")
	os.WriteFile(ovPath, b, 0o644)
	ctx, cancel := context.WithTimeout(context.Background(), 180*time.Second)
	defer cancel()
	cmd := exec.CommandContext(ctx, "go", "test", "-overlay", ovPath, "-vet=off", "-count=1", "-timeout", "120s", "-run", fam.Run, "./"+fam.Pkg)
	cmd.Dir = en.repo
	cmd.Env = append(os.Environ(), "GOFLAGS=-mod=mod", "GOPROXY=off", "GOSUMDB=off", "VERIF_REPLAY_PROPERTY="+id)
	var out bytes.Buffer
	cmd.Stdout = &out
	cmd.Stderr = &out
	err = cmd.Run()
	txt := out.String()
	if err == nil {
		return "NOT-REPRODUCED: the replay harness found no concrete failing input (" + lastLine(txt) + ")"
	}
	if strings.Contains(txt, "--- FAIL") || strings.Contains(txt, "panic:") || strings.Contains(txt, "fatal error") {
		return "REPRODUCED: " + trunc(firstFailLines(txt), 3000)
	}
	return "REPLAY-ERROR: " + trunc(txt, 1500)
}

func lastLine(s string) string {
	ls := strings.Split(strings.TrimSpace(s), "\n")
	return ls[len(ls)-1]
}

func firstFailLines(s string) string {
	var out []string
	for _, l := range strings.Split(s, "\n") {
		if strings.Contains(l, "REPLAY-FAIL") || strings.Contains(l, "--- FAIL") || strings.Contains(l, "panic:") || strings.Contains(l, "fatal error") {
			out = append(out, strings.TrimSpace(l))
			if len(out) >= 12 {
				break
			}
		}
	}
	return strings.Join(out, " | ")
}

// replayFile re-runs the replay recorded in a replay file.
func (en *Engine) replayFile(path, verif string) int {
	var rep map[string]any
	if err := loadJSON(path, &rep); err != nil {
		fmt.Fprintln(os.Stderr, err)
		return 2
	}
	fam, _ := rep["replay_family"].(string)
	id, _ := rep["property"].(string)
	fmt.Println("failed obligation:", rep["failed_obligation"])
	out := en.runReplayFamily(fam, id, verif)
	fmt.Println(out)
	if strings.HasPrefix(out, "REPRODUCED") {
		fmt.Printf("VIOLATION property=%s replay=%s\n", id, path)
		return 1
	}
	return 0
}
