package main

// Replay: concrete differential tests of the real code against executable
// renderings of the specifications (templates under /verif/replay/templates),
// injected in-package with `go test -overlay`; nothing is written to the repo.

import (
	"bytes"
	"context"
	"encoding/json"
	"fmt"
	"os"
	"os/exec"
	"path/filepath"
	"strings"
	"time"
)

type replayFamily struct {
	Template string // file under replay/templates
	Pkg      string // package directory relative to the repo
	Run      string // -run pattern
}

var replayFamilies = map[string]replayFamily{
	"seq-iter":  {"seq_iter_replay_test.go", "seq", "TestVerifReplayIter"},
	"seq-diff":  {"seq_diff_replay_test.go", "seq", "TestVerifReplayDiff"},
	"seq-stack": {"seq_stack_replay_test.go", "seq", "TestVerifReplayStack"},
	"rw-term":   {"rw_term_replay_test.go", "rewriter", "TestVerifReplayTerm"},
	"rw-unit":   {"rw_unit_replay_test.go", "rewriter", "TestVerifReplayUnit"},
}

// familyFor picks the replay family for a failed obligation: by unit, else the property's default.
func familyFor(obligation, def string) string {
	type rule struct{ prefix, family string }
	rules := []rule{
		{"seq.integerIter", "seq-iter"}, {"seq.stringIter", "seq-iter"}, {"seq.sliceIter", "seq-iter"}, {"seq.mapIter", "seq-iter"}, {"seq.chanIter", "seq-iter"},
		{"seq.NewIntegerIter", "seq-iter"}, {"seq.NewStringIter", "seq-iter"}, {"seq.NewSliceIter", "seq-iter"}, {"seq.NewMapIter", "seq-iter"}, {"seq.NewChanIter", "seq-iter"},
		{"rewriter.hasBreak", "rw-term"}, {"rewriter.terminationChecker", "rw-term"},
		{"rewriter.yieldRewriter.gensym", "rw-determinism"}, {"scan.rw-symcnt-frame", "rw-determinism"}, {"scan.rw-per-file-rewriter", "rw-determinism"},
		{"scan.rw-no-package-state", "rw-determinism"}, {"scan.rw-no-map-iteration", "rw-determinism"},
		{"rewriter.", "rw-samples"},
		// the rest of the runtime: combinators and generator protocol against the reference interpreter, whatever the property
		{"seq.", "seq-diff"},
	}
	for _, r := range rules {
		if strings.HasPrefix(obligation, r.prefix) {
			return r.family
		}
	}
	return def
}

// runSamples: the compiler sample corpus (replay/samples) through the real compiler of the repo under check.
func (en *Engine) runSamples(verif string) string {
	known := map[string]bool{}
	if b, err := os.ReadFile(filepath.Join(verif, "replay", "known_sample_failures.txt")); err == nil {
		for _, l := range strings.Fields(string(b)) {
			known[l] = true
		}
	}
	ctx, cancel := context.WithTimeout(context.Background(), 600*time.Second)
	defer cancel()
	cmd := exec.CommandContext(ctx, filepath.Join(verif, "replay", "run_samples.sh"), en.repo)
	var out bytes.Buffer
	cmd.Stdout = &out
	cmd.Stderr = &out
	_ = cmd.Run()
	var bad []string
	n := 0
	for _, l := range strings.Split(out.String(), "\n") {
		f := strings.Fields(l)
		if len(f) < 2 {
			continue
		}
		n++
		name := strings.TrimSuffix(f[1], ":")
		if f[0] == "SAMPLE-FAIL" && !known[name] {
			bad = append(bad, strings.TrimSpace(l))
		}
	}
	if len(bad) > 0 {
		return "REPRODUCED: " + trunc(strings.Join(bad, " | "), 3000)
	}
	return fmt.Sprintf("NOT-REPRODUCED: all %d compiler samples behave as expected (recorded findings excepted)", n)
}

// runReplayFamily runs the replay test of a family against the repo under check.
func (en *Engine) runReplayFamily(family, id, verif string) string {
	if family == "rw-samples" {
		return en.runSamples(verif)
	}
	if family == "rw-determinism" {
		return en.runDeterminism(verif)
	}
	fam, ok := replayFamilies[family]
	if !ok {
		return "NO-REPLAY-TEMPLATE: no concrete replay harness exists for this obligation family"
	}
	src := filepath.Join(verif, "replay", "templates", fam.Template)
	if _, err := os.Stat(src); err != nil {
		return "NO-REPLAY-TEMPLATE: " + err.Error()
	}
	tmp, err := os.MkdirTemp("", "govc-replay-")
	if err != nil {
		return "REPLAY-ERROR: " + err.Error()
	}
	defer os.RemoveAll(tmp)
	ov := map[string]map[string]string{"Replace": {filepath.Join(en.repo, fam.Pkg, "zz_verif_replay_test.go"): src}}
	b, _ := json.Marshal(ov)
	ovPath := filepath.Join(tmp, "overlay.json")
	os.WriteFile(ovPath, b, 0o644)
	ctx, cancel := context.WithTimeout(context.Background(), 180*time.Second)
	defer cancel()
	cmd := exec.CommandContext(ctx, "go", "test", "-overlay", ovPath, "-vet=off", "-count=1", "-timeout", "120s", "-run", fam.Run, "./"+fam.Pkg)
	cmd.Dir = en.repo
	cmd.Env = append(os.Environ(), "GOFLAGS=-mod=mod", "GOPROXY=off", "GOSUMDB=off", "VERIF_REPLAY_PROPERTY="+id)
	var out bytes.Buffer
	cmd.Stdout = &out
	cmd.Stderr = &out
	err = cmd.Run()
	txt := out.String()
	if err == nil {
		return "NOT-REPRODUCED: the replay harness found no concrete failing input (" + lastLine(txt) + ")"
	}
	if strings.Contains(txt, "--- FAIL") || strings.Contains(txt, "panic:") || strings.Contains(txt, "fatal error") {
		return "REPRODUCED: " + trunc(firstFailLines(txt), 3000)
	}
	return "REPLAY-ERROR: " + trunc(txt, 1500)
}

func lastLine(s string) string {
	ls := strings.Split(strings.TrimSpace(s), "\n")
	return ls[len(ls)-1]
}

func firstFailLines(s string) string {
	var out []string
	for _, l := range strings.Split(s, "\n") {
		if strings.Contains(l, "REPLAY-FAIL") || strings.Contains(l, "--- FAIL") || strings.Contains(l, "panic:") || strings.Contains(l, "fatal error") {
			out = append(out, strings.TrimSpace(l))
			if len(out) >= 12 {
				break
			}
		}
	}
	return strings.Join(out, " | ")
}

// replayFile re-runs the replay recorded in a replay file.
func (en *Engine) replayFile(path, verif string) int {
	var rep map[string]any
	if err := loadJSON(path, &rep); err != nil {
		fmt.Fprintln(os.Stderr, err)
		return 2
	}
	fam, _ := rep["replay_family"].(string)
	id, _ := rep["property"].(string)
	fmt.Println("failed obligation:", rep["failed_obligation"])
	out := en.runReplayFamily(fam, id, verif)
	fmt.Println(out)
	if strings.HasPrefix(out, "REPRODUCED") {
		fmt.Printf("VIOLATION property=%s replay=%s\n", id, path)
		return 1
	}
	return 0
}

// runDeterminism: replay/determinism.sh — the real compiler on one package alone, re-run over earlier outputs, and
// among sibling files and another package; the generated text must be byte-identical and helper names distinct.
func (en *Engine) runDeterminism(verif string) string {
	ctx, cancel := context.WithTimeout(context.Background(), 600*time.Second)
	defer cancel()
	cmd := exec.CommandContext(ctx, filepath.Join(verif, "replay", "determinism.sh"), en.repo)
	var out bytes.Buffer
	cmd.Stdout = &out
	cmd.Stderr = &out
	_ = cmd.Run()
	o := strings.TrimSpace(out.String())
	if strings.Contains(o, "DETERMINISM-OK") {
		return "NOT-REPRODUCED: " + trunc(o, 600)
	}
	if strings.Contains(o, "DETERMINISM-FAIL") {
		return "REPRODUCED: " + trunc(o, 3000)
	}
	return "REPLAY-ERROR: " + trunc(o, 600)
}
