package main

// Translation of contract expressions to SMT terms over a symbolic state.

import (
	"fmt"
	"go/types"
	"strings"
)

type cxEnv struct {
	live  *State // receives lazily generated assumptions (frame instances)
	ev    *State // state in which heap reads are evaluated
	old   *State // state denoted by old(...)
	binds map[string]Term
	scope *UnitInfo // unit whose lexical scope resolves free Go identifiers (nil: x.unit)
	bound map[string]Term
}

func (x *Exec) cxBool(st *State, e cx, old *State, binds map[string]Term) string {
	return x.cxBoolIn(st, e, old, binds, nil)
}

func (x *Exec) cxBoolIn(st *State, e cx, old *State, binds map[string]Term, scope *UnitInfo) string {
	t := x.cxTermIn(st, e, old, binds, scope)
	if t.Sort != "Bool" {
		x.undecide("contract expression %s is not boolean (%s)", e.cxs(), t.Sort)
		return "true"
	}
	return t.S
}

func (x *Exec) cxTermIn(st *State, e cx, old *State, binds map[string]Term, scope *UnitInfo) Term {
	env := &cxEnv{live: st, ev: st, old: old, binds: binds, scope: scope, bound: map[string]Term{}}
	return x.cxEval(env, e)
}

func (x *Exec) readFieldFrom(env *cxEnv, key, valSort, ref string) Term {
	v := env.ev.fields[key]
	if v == nil {
		v = x.entry.fields[key]
	}
	if v == nil {
		v = x.fieldVer(env.live, key, valSort)
		if ev2 := env.ev.fields[key]; ev2 != nil {
			v = ev2
		} else if env.ev != env.live {
			// first touched now: the evaluation state never changed it
			v = x.entry.fields[key]
		}
	}
	x.emitFrameInst(env.live, v, ref)
	t := Term{S: fmt.Sprintf("(select %s %s)", v.term, ref), Sort: valSort}
	x.noteReadClk(env.live, t, env.ev.clk)
	return t
}

func (x *Exec) lookupGoVar(scope *UnitInfo, name string) *types.Var {
	u := scope
	if u == nil {
		u = x.unit
	}
	// header names of enclosing units bind their parameters positionally (robust against renaming in the code)
	for cur := u.Parent; cur != nil; cur = cur.Parent {
		if cur.Spec == nil || cur.Sig == nil {
			continue
		}
		for i, hn := range cur.Spec.Params {
			if hn == name && i < cur.Sig.Params().Len() {
				return cur.Sig.Params().At(i)
			}
		}
	}
	// free variables of the unit chain and parameters of enclosing units
	for cur := u; cur != nil; cur = cur.Parent {
		if cur.Sig != nil {
			for i := 0; i < cur.Sig.Params().Len(); i++ {
				if v := cur.Sig.Params().At(i); v.Name() == name {
					return v
				}
			}
			for i := 0; i < cur.Sig.Results().Len(); i++ {
				if v := cur.Sig.Results().At(i); v.Name() == name {
					return v
				}
			}
		}
		if cur.Recv != nil && cur.Recv.Name() == name {
			return cur.Recv
		}
		for _, v := range cur.FreeVars {
			if v.Name() == name {
				return v
			}
		}
	}
	// a local of the enclosing top-level function (visible to, though perhaps not captured by, the closure)
	if u.Lit != nil && u.Decl != nil {
		var found *types.Var
		for id, obj := range u.Pkg.TypesInfo.Defs {
			if id.Name != name || obj == nil {
				continue
			}
			v, ok := obj.(*types.Var)
			if !ok || v.IsField() {
				continue
			}
			if id.Pos() >= u.Decl.Body.Pos() && id.Pos() < u.Lit.Pos() {
				if found == nil || v.Pos() > found.Pos() {
					found = v
				}
			}
		}
		return found
	}
	return nil
}

func (x *Exec) cxEval(env *cxEnv, e cx) Term {
	switch y := e.(type) {
	case *cxInt:
		return tInt(y.Val)
	case *cxBool:
		return tBool(fmt.Sprint(y.Val))
	case *cxStr:
		return x.d.strLit(y.Val)
	case *cxIdent:
		return x.cxIdentTerm(env, y.Name)
	case *cxUn:
		v := x.cxEval(env, y.X)
		if y.Op == "!" {
			return tBool(sNot(v.S))
		}
		return tInt("(- " + v.S + ")")
	case *cxBin:
		return x.cxBinTerm(env, y)
	case *cxSel:
		// qualified constant: token.BREAK
		if id, ok := y.X.(*cxIdent); ok {
			if _, isVar := env.binds[id.Name]; !isVar {
				if t, ok := x.qualifiedConst(id.Name, y.Sel); ok {
					return t
				}
			}
		}
		obj := x.cxEval(env, y.X)
		return x.cxField(env, obj, y.Sel, e)
	case *cxIdx:
		b := x.cxEval(env, y.X)
		i := x.cxEval(env, y.I)
		if b.Sort == "Slice" {
			es, et := "Iface", types.Type(nil)
			if b.T != nil {
				es, et = x.elemSortOf(b.T)
			}
			key := elemKey(es)
			arrT := x.readFieldFrom(env, key, "(Array Int "+es+")", "(s_base "+b.S+")")
			t := Term{S: fmt.Sprintf("(select %s (+ (s_off %s) %s))", arrT.S, b.S, i.S), Sort: es, T: et}
			x.noteReadClk(env.live, t, env.ev.clk)
			x.rigidLinkElem(env.live, b, i.S, t)
			return t
		}
		if b.Sort == "Ref" && b.T != nil {
			if mt, ok := b.T.Underlying().(*types.Map); ok {
				// m[k] of a Go map, as the code reads it (the zero value for an absent key)
				v, _ := x.mapGet(env.live, b, i, mt.Elem())
				return v
			}
		}
		if strings.HasPrefix(b.Sort, "(Array ") {
			inner := strings.TrimSuffix(strings.TrimPrefix(b.Sort, "(Array "), ")")
			parts := strings.SplitN(inner, " ", 2)
			return Term{S: fmt.Sprintf("(select %s %s)", b.S, i.S), Sort: parts[1]}
		}
		x.undecide("contract: index on %s in %s", b.Sort, e.cxs())
		return tInt("0")
	case *cxCall:
		return x.cxCallTerm(env, y)
	case *cxQuant:
		so := y.Sort
		// every quantifier gets its own bound name: a predicate unfolded under a quantifier binds the same source name again,
		// and its arguments may mention the outer variable (capture)
		x.quantSeq++
		v := Term{S: fmt.Sprintf("%s!b%d", y.Var, x.quantSeq), Sort: so}
		saved, had := env.bound[y.Var]
		env.bound[y.Var] = v
		body := x.cxEval(env, y.Body)
		if had {
			env.bound[y.Var] = saved
		} else {
			delete(env.bound, y.Var)
		}
		q := "exists"
		if y.Forall {
			q = "forall"
		}
		return tBool(fmt.Sprintf("(%s ((%s %s)) %s)", q, v.S, so, body.S))
	case *cxLet:
		val := x.cxEval(env, y.Val)
		saved, had := env.bound[y.Var]
		env.bound[y.Var] = val
		body := x.cxEval(env, y.Body)
		if had {
			env.bound[y.Var] = saved
		} else {
			delete(env.bound, y.Var)
		}
		return body
	case *cxIte:
		c := x.cxEval(env, y.C)
		a := x.cxEval(env, y.A)
		b := x.cxEval(env, y.B)
		if a.Sort == "Nil" {
			a = x.d.zeroOfSort(b.Sort, b.T)
		}
		if b.Sort == "Nil" {
			b = x.d.zeroOfSort(a.Sort, a.T)
		}
		return Term{S: sIte(c.S, a.S, b.S), Sort: a.Sort, T: a.T}
	}
	x.undecide("contract: unsupported expression %s", e.cxs())
	return tBool("true")
}

func (x *Exec) qualifiedConst(pkgName, name string) (Term, bool) {
	for _, imp := range x.unit.Pkg.Imports {
		if imp.Name == pkgName && imp.Types != nil {
			if c, ok := imp.Types.Scope().Lookup(name).(*types.Const); ok {
				if t, ok := constTerm(c.Val(), x.d); ok {
					t.T = c.Type()
					return t, true
				}
			}
		}
	}
	return Term{}, false
}

func (x *Exec) cxIdentTerm(env *cxEnv, name string) Term {
	if t, ok := env.bound[name]; ok {
		return t
	}
	if t, ok := env.binds[name]; ok {
		return t
	}
	if env.scope == nil {
		if t, ok := x.hdr[name]; ok {
			// header parameter names denote the entry value; results the exit value
			return t
		}
	}
	switch name {
	case "W":
		if w, ok := env.ev.ghost["W"]; ok {
			return w
		}
		return x.world(env.live)
	case "nil":
		return Term{S: "nil", Sort: "Nil"}
	case "self":
		return x.self
	case "clk":
		return tInt(env.ev.clk)
	}
	if v := x.lookupGoVar(env.scope, name); v != nil {
		if t, ok := env.ev.vars[v]; ok {
			return t
		}
		if t, ok := env.live.vars[v]; ok {
			return t
		}
		return x.capturedVar(env.live, v)
	}
	// a local variable of the unit, by name (innermost = latest declared)
	var best *types.Var
	for o := range env.ev.vars {
		if v, ok := o.(*types.Var); ok && v.Name() == name && !v.IsField() {
			if best == nil || v.Pos() > best.Pos() {
				best = v
			}
		}
	}
	if best != nil {
		return env.ev.vars[best]
	}
	if obj := x.unit.Pkg.Types.Scope().Lookup(name); obj != nil {
		switch o := obj.(type) {
		case *types.Const:
			if t, ok := constTerm(o.Val(), x.d); ok {
				t.T = o.Type()
				return t
			}
		case *types.Var:
			so := x.d.sortOf(o.Type())
			n := x.d.constant("glob_"+sanitizeSym(o.Pkg().Name()+"_"+o.Name()), so)
			return Term{S: n, Sort: so, T: o.Type()}
		}
	}
	if sig, ok := x.d.sigs[name]; ok && len(sig.Args) == 0 {
		return Term{S: name, Sort: sig.Ret}
	}
	x.undecide("contract: unknown identifier %s", name)
	return tBool("true")
}

func (x *Exec) cxField(env *cxEnv, obj Term, name string, e cx) Term {
	if obj.T == nil {
		x.undecide("contract: field %s of untyped term in %s", name, e.cxs())
		return tBool("true")
	}
	t := obj.T
	cur := obj
	// search (with embedded promotion, one level)
	var find func(cur Term, t types.Type, depth int) (Term, bool)
	find = func(cur Term, t types.Type, depth int) (Term, bool) {
		named, isPtr := derefNamed(t)
		stt := structOf(t)
		if stt == nil {
			return Term{}, false
		}
		for i := 0; i < stt.NumFields(); i++ {
			f := stt.Field(i)
			if f.Name() == name {
				fs := x.d.sortOf(f.Type())
				if isPtr && named != nil {
					r := x.readFieldFrom(env, fieldKeyOf(named, f), fs, cur.S)
					r.T = f.Type()
					if !strings.Contains(r.S, "!b") {
						x.ifaceWellTyped(env.live, r, f.Type())
					}
					x.rigidLinkField(env.live, fieldKeyOf(named, f), cur.S, r)
					return r, true
				}
				if strings.HasPrefix(cur.Sort, "S_") {
					return Term{S: fmt.Sprintf("(%s_%s %s)", cur.Sort, sanitizeSym(f.Name()), cur.S), Sort: fs, T: f.Type()}, true
				}
				if cur.Sort != "" && named != nil {
					// a struct value the engine keeps opaque: uninterpreted projections (the names Exec.selector uses)
					fn := x.d.fun("fld_"+sanitizeSym(named.Obj().Name()+"_"+f.Name()), []string{cur.Sort}, fs)
					return Term{S: fmt.Sprintf("(%s %s)", fn, cur.S), Sort: fs, T: f.Type()}, true
				}
			}
		}
		if depth < 2 {
			for i := 0; i < stt.NumFields(); i++ {
				f := stt.Field(i)
				if !f.Embedded() {
					continue
				}
				var next Term
				if isPtr && named != nil {
					next = x.readFieldFrom(env, fieldKeyOf(named, f), x.d.sortOf(f.Type()), cur.S)
				} else if strings.HasPrefix(cur.Sort, "S_") || named == nil {
					next = Term{S: fmt.Sprintf("(%s_%s %s)", cur.Sort, sanitizeSym(f.Name()), cur.S), Sort: x.d.sortOf(f.Type())}
				} else {
					fs := x.d.sortOf(f.Type())
					fn := x.d.fun("fld_"+sanitizeSym(named.Obj().Name()+"_"+f.Name()), []string{cur.Sort}, fs)
					next = Term{S: fmt.Sprintf("(%s %s)", fn, cur.S), Sort: fs}
				}
				next.T = f.Type()
				if r, ok := find(next, f.Type(), depth+1); ok {
					return r, true
				}
			}
		}
		return Term{}, false
	}
	if r, ok := find(cur, t, 0); ok {
		return r
	}
	x.undecide("contract: no field %s on %s in %s", name, t, e.cxs())
	return tBool("true")
}

func (x *Exec) cxBinTerm(env *cxEnv, y *cxBin) Term {
	l := x.cxEval(env, y.L)
	r := x.cxEval(env, y.R)
	switch y.Op {
	case "&&":
		return tBool(sAnd(l.S, r.S))
	case "||":
		return tBool(sOr(l.S, r.S))
	case "==>":
		return tBool(sImp(l.S, r.S))
	case "<==>":
		return tBool(sEq(l.S, r.S))
	case "==":
		return tBool(x.eqTerm(env.live, l, r))
	case "!=":
		return tBool(sNot(x.eqTerm(env.live, l, r)))
	case "<", "<=", ">", ">=":
		return tBool(fmt.Sprintf("(%s %s %s)", y.Op, l.S, r.S))
	case "+", "-", "*":
		return Term{S: fmt.Sprintf("(%s %s %s)", y.Op, l.S, r.S), Sort: "Int", T: l.T}
	case "/":
		return tInt(fmt.Sprintf("(div %s %s)", l.S, r.S))
	case "%":
		return tInt(fmt.Sprintf("(mod %s %s)", l.S, r.S))
	}
	x.undecide("contract: operator %s", y.Op)
	return tBool("true")
}

func (x *Exec) cxCallTerm(env *cxEnv, y *cxCall) Term {
	switch y.Fun {
	case "old":
		sub := &cxEnv{live: env.live, ev: env.old, old: env.old, binds: env.binds, scope: env.scope, bound: env.bound}
		return x.cxEval(sub, y.Args[0])
	case "len", "cap":
		v := x.cxEval(env, y.Args[0])
		switch v.Sort {
		case "Slice":
			if y.Fun == "cap" {
				return tInt("(s_cap " + v.S + ")")
			}
			return tInt("(s_len " + v.S + ")")
		case "Str":
			return tInt("(slen " + v.S + ")")
		}
		x.undecide("contract: len of %s", v.Sort)
		return tInt("0")
	case "fresh":
		v := x.cxEval(env, y.Args[0])
		r := v.S
		switch v.Sort {
		case "Iface":
			r = "(iref " + v.S + ")"
		case "Slice":
			r = "(s_base " + v.S + ")"
		}
		return tBool(fmt.Sprintf("(and (not (= %s nilRef)) (>= (alloc %s) %s))", r, r, env.old.clk))
	case "mapTrue":
		// m[k] for a map[*T]bool: present and true
		m := x.cxEval(env, y.Args[0])
		k := x.cxEval(env, y.Args[1])
		if k.Sort == "Iface" {
			k = Term{S: "(iref " + k.S + ")", Sort: "Ref"}
		}
		x.d.fun("mapget_Ref_Bool", []string{"Ref", "Ref"}, "Bool")
		x.d.fun("maphas_Ref", []string{"Ref", "Ref"}, "Bool")
		return tBool(fmt.Sprintf("(and (maphas_Ref %s %s) (mapget_Ref_Bool %s %s))", m.S, k.S, m.S, k.S))
	case "IsSignature":
		v := x.cxEval(env, y.Args[0])
		for _, imp := range x.unit.Pkg.Imports {
			if imp.PkgPath == "go/types" && imp.Types != nil {
				if o := imp.Types.Scope().Lookup("Signature"); o != nil {
					return tBool(sEq("(itag "+v.S+")", fmt.Sprint(x.d.tag(types.NewPointer(o.Type())))))
				}
			}
		}
		x.undecide("contract: IsSignature needs go/types")
		return tBool("true")
	case "IsDeclaredFunc":
		// the types.Object is a *types.Func (a declared function or method), not a variable, builtin, type name or nil
		v := x.cxEval(env, y.Args[0])
		for _, imp := range x.unit.Pkg.Imports {
			if imp.PkgPath == "go/types" && imp.Types != nil {
				if o := imp.Types.Scope().Lookup("Func"); o != nil {
					return tBool(sEq("(itag "+v.S+")", fmt.Sprint(x.d.tag(types.NewPointer(o.Type())))))
				}
			}
		}
		x.undecide("contract: IsDeclaredFunc needs go/types")
		return tBool("true")
	case "existing":
		v := x.cxEval(env, y.Args[0])
		r := v.S
		switch v.Sort {
		case "Iface":
			r = "(iref " + v.S + ")"
		case "Slice":
			r = "(s_base " + v.S + ")"
		}
		return tBool(fmt.Sprintf("(< (alloc %s) %s)", r, env.old.clk))
	case "fieldmap":
		key := x.fieldmapKey(y)
		v := env.ev.fields[key]
		if v == nil {
			v = x.entry.fields[key]
		}
		if v == nil {
			vs := x.fieldSortByKey(key)
			if vs == "" {
				x.undecide("contract: fieldmap of unknown field %s", key)
				return tBool("true")
			}
			x.fieldVer(env.live, key, vs)
			v = x.entry.fields[key]
		}
		return Term{S: v.term, Sort: v.sort}
	case "isa":
		v := x.cxEval(env, y.Args[0])
		id, _ := y.Args[1].(*cxIdent)
		if sel, ok := y.Args[1].(*cxSel); ok && v.Sort == "Iface" {
			// isa(v, types.Basic): dynamic type *go/types.Basic (a qualified name selects the package)
			if q, ok := sel.X.(*cxIdent); ok {
				for _, imp := range x.unit.Pkg.Imports {
					if imp.Name == q.Name && imp.Types != nil {
						if o, ok := imp.Types.Scope().Lookup(sel.Sel).(*types.TypeName); ok {
							return tBool(sEq("(itag "+v.S+")", fmt.Sprint(x.d.tag(types.NewPointer(o.Type())))))
						}
					}
				}
			}
			x.undecide("contract: isa: unknown qualified type %s", sel.Sel)
			return tBool("true")
		}
		if id == nil || v.Sort != "Iface" {
			x.undecide("contract: isa needs an interface value and a type name")
			return tBool("true")
		}
		for _, c := range x.candidateDynTypes() {
			if c.(*types.Pointer).Elem().(*types.Named).Obj().Name() == id.Name {
				return tBool(sEq("(itag "+v.S+")", fmt.Sprint(x.d.tag(c))))
			}
		}
		x.undecide("contract: isa: unknown node type %s", id.Name)
		return tBool("true")
	case "iface":
		// iface(ptr, T): the interface value holding pointer ptr of dynamic type *ast.T
		v := x.cxEval(env, y.Args[0])
		id, _ := y.Args[1].(*cxIdent)
		for _, c := range x.candidateDynTypes() {
			if id != nil && c.(*types.Pointer).Elem().(*types.Named).Obj().Name() == id.Name {
				return Term{S: fmt.Sprintf("(mkIface %d %s)", x.d.tag(c), v.S), Sort: "Iface"}
			}
		}
		x.undecide("contract: iface: unknown node type")
		return tBool("true")
	case "as":
		v := x.cxEval(env, y.Args[0])
		id, _ := y.Args[1].(*cxIdent)
		if id != nil {
			o := x.unit.Pkg.Types.Scope().Lookup(id.Name)
			if o == nil {
				for _, imp := range x.unit.Pkg.Imports {
					if imp.PkgPath == "go/ast" && imp.Types != nil {
						o = imp.Types.Scope().Lookup(id.Name)
					}
				}
			}
			if o != nil {
				v.T = types.NewPointer(o.Type())
				if v.Sort == "Iface" {
					v = Term{S: "(iref " + v.S + ")", Sort: "Ref", T: v.T}
				}
				return v
			}
		}
		x.undecide("contract: as: unknown type in %s", y.cxs())
		return v
	case "deref":
		pv := x.cxEval(env, y.Args[0])
		if pv.T == nil {
			x.undecide("contract: deref of untyped pointer in %s", y.cxs())
			return tBool("true")
		}
		pt, ok := pv.T.Underlying().(*types.Pointer)
		if !ok {
			x.undecide("contract: deref of non-pointer in %s", y.cxs())
			return tBool("true")
		}
		es := x.d.sortOf(pt.Elem())
		t := x.readFieldFrom(env, "cell:"+es, es, pv.S)
		t.T = pt.Elem()
		return t
	case "theNew":
		id, _ := y.Args[0].(*cxIdent)
		if id == nil {
			x.undecide("contract: theNew needs a type name")
			return Term{S: "nilRef", Sort: "Ref"}
		}
		if t, ok := env.live.ghost["new:"+id.Name]; ok {
			return t
		}
		return Term{S: x.d.constant("theNew_"+id.Name, "Ref"), Sort: "Ref"}
	case "ptr":
		v := x.cxEval(env, y.Args[0])
		if v.Sort == "Iface" {
			return Term{S: "(iref " + v.S + ")", Sort: "Ref"}
		}
		return v
	case "same":
		a := x.cxEval(env, y.Args[0])
		b := x.cxEval(env, y.Args[1])
		if a.Sort == "Nil" {
			a = x.d.zeroOfSort(b.Sort, b.T)
		}
		if b.Sort == "Nil" {
			b = x.d.zeroOfSort(a.Sort, a.T)
		}
		return tBool(sEq(a.S, b.S))
	case "implements":
		v := x.cxEval(env, y.Args[0])
		id, _ := y.Args[1].(*cxIdent)
		if id != nil && v.Sort == "Iface" {
			for _, imp := range x.unit.Pkg.Imports {
				if imp.PkgPath == "go/ast" && imp.Types != nil {
					if o := imp.Types.Scope().Lookup(id.Name); o != nil {
						return tBool(x.hasDynType(env.live, v, o.Type()))
					}
				}
			}
		}
		x.undecide("contract: implements needs an interface value and a go/ast interface name")
		return tBool("true")
	case "AssertsTo", "AssertVal", "IsIfaceParam":
		id, _ := y.Args[len(y.Args)-1].(*cxIdent)
		tp := x.typeParamNamed(id)
		if tp == nil {
			x.undecide("contract: %s needs a type parameter name", y.Fun)
			return tBool("true")
		}
		if y.Fun == "IsIfaceParam" {
			return tBool(x.d.constant("tparam_is_iface_"+tp.Obj().Name(), "Bool"))
		}
		v := x.cxEval(env, y.Args[0])
		val, ok := x.typeAssert(env.live, v, tp)
		if y.Fun == "AssertsTo" {
			return tBool(ok)
		}
		// the value when the assertion succeeds
		so := x.d.sortOf(tp)
		return Term{S: fmt.Sprintf("(unbox_%s (iref %s))", sanitizeSym(so), v.S), Sort: val.Sort, T: tp}
	case "isnil":
		v := x.cxEval(env, y.Args[0])
		switch v.Sort {
		case "Iface":
			return tBool(sOr(sEq("(itag "+v.S+")", "0"), sEq("(iref "+v.S+")", "nilRef")))
		case "Ref":
			return tBool(sEq(v.S, "nilRef"))
		case "Nil":
			return tBool("true")
		}
		x.undecide("contract: isnil of %s", v.Sort)
		return tBool("true")
	}
	// model function
	if mu, ok := x.prog.Contracts.Models[y.Fun]; ok {
		var args []Term
		for _, a := range y.Args {
			args = append(args, x.cxEval(env, a))
		}
		return x.modelApply(env, mu, args)
	}
	// prelude / declared spec function
	if sig, ok := x.d.sigs[y.Fun]; ok {
		var as []string
		for i, a := range y.Args {
			v := x.cxEval(env, a)
			if v.Sort == "Nil" && i < len(sig.Args) {
				v = x.d.zeroOfSort(sig.Args[i], nil)
			}
			if i < len(sig.Args) && sig.Args[i] == "Iface" && v.Sort == "Ref" && v.T != nil {
				v = x.boxIface(env.live, v, v.T)
			}
			as = append(as, v.S)
		}
		if len(as) != len(sig.Args) {
			x.undecide("contract: %s expects %d arguments", y.Fun, len(sig.Args))
			return tBool("true")
		}
		if strings.HasPrefix(y.Fun, "is_") {
			return tBool(fmt.Sprintf("((_ is %s) %s)", strings.TrimPrefix(y.Fun, "is_"), as[0]))
		}
		if len(as) == 0 {
			return Term{S: y.Fun, Sort: sig.Ret}
		}
		t := Term{S: "(" + y.Fun + " " + strings.Join(as, " ") + ")", Sort: sig.Ret}
		if x.hooks != nil {
			x.hooks.noteSpecApp(x, env.live, y.Fun, as)
		}
		x.noteSpecUnfold(env.live, y.Fun, as)
		return t
	}
	x.undecide("contract: unknown function %s", y.Fun)
	return tBool("true")
}

// modelApply: body mode expands the definition, caller mode reads the model array.
func (x *Exec) modelApply(env *cxEnv, mu *UnitSpec, args []Term) Term {
	if len(args) != len(mu.Params) {
		x.undecide("contract: model %s expects %d arguments", mu.Key, len(mu.Params))
		return tBool("true")
	}
	expand := func() Term {
		b := map[string]Term{}
		for i, p := range mu.Params {
			a := args[i]
			if a.T == nil {
				a.T = x.modelParamType(mu, i)
			}
			b[p] = a
		}
		sub := &cxEnv{live: env.live, ev: env.ev, old: env.old, binds: b, scope: env.scope, bound: env.bound}
		savedHdr := x.hdr
		x.hdr = map[string]Term{}
		r := x.cxEval(sub, mu.ModelDef)
		x.hdr = savedHdr
		return r
	}
	if x.revealed[mu.Key] || mu.Flags["pred"] || transparentModel(mu) != "" {
		return expand()
	}
	// caller mode: (select MF obj) [idx...]; the value sort is that of the definition at these
	// argument types (a model of a generic type has one array per instantiation sort)
	scratch := env.live.clone()
	saveUnd := x.undecided
	saveDecl := len(x.d.lines)
	_ = saveDecl
	var r0 Term
	{
		b := map[string]Term{}
		for i, p := range mu.Params {
			a := args[i]
			if a.T == nil {
				a.T = x.modelParamType(mu, i)
			}
			b[p] = a
		}
		sub := &cxEnv{live: scratch, ev: scratch, old: scratch, binds: b, scope: env.scope, bound: env.bound}
		savedHdr := x.hdr
		x.hdr = map[string]Term{}
		r0 = x.cxEval(sub, mu.ModelDef)
		x.hdr = savedHdr
	}
	x.undecided = saveUnd
	vs := r0.Sort
	mkey := mu.Key
	if vs != x.modelSort[mu.Key] {
		if _, seen := x.modelSort[mu.Key]; seen {
			mkey = mu.Key + "_" + sanitizeSym(vs)
		} else {
			x.modelSort[mu.Key] = vs
		}
	}
	x.modelType[mkey] = r0.T
	sortArr := vs
	for i := len(args) - 1; i >= 1; i-- {
		sortArr = "(Array " + args[i].Sort + " " + sortArr + ")"
	}
	full := "(Array Ref " + sortArr + ")"
	v := env.ev.models[mkey]
	if v == nil {
		v = x.entry.models[mkey]
	}
	if v == nil {
		name := x.d.constant("MF0_"+mkey, full)
		v = &HeapVer{term: name, sort: full, valSort: sortArr}
		env.live.models[mkey] = v
		x.entry.models[mkey] = v
		if ev2 := env.ev.models[mkey]; ev2 == nil {
			env.ev.models[mkey] = v
		}
	}
	x.emitFrameInst(env.live, v, args[0].S)
	s := fmt.Sprintf("(select %s %s)", v.term, args[0].S)
	for _, a := range args[1:] {
		s = fmt.Sprintf("(select %s %s)", s, a.S)
	}
	return Term{S: s, Sort: vs, T: x.modelType[mkey]}
}

// fieldSortByKey: value sort of heap key "pkg.Type.field" of the unit's package.
func (x *Exec) fieldSortByKey(key string) string {
	parts := strings.Split(key, ".")
	if len(parts) != 3 {
		return ""
	}
	o := x.unit.Pkg.Types.Scope().Lookup(parts[1])
	if parts[0] != x.unit.Pkg.Name {
		o = nil
		for _, imp := range x.unit.Pkg.Imports {
			if imp.Name == parts[0] && imp.Types != nil {
				o = imp.Types.Scope().Lookup(parts[1])
			}
		}
	}
	if o == nil {
		return ""
	}
	stt, _ := o.Type().Underlying().(*types.Struct)
	if stt == nil {
		return ""
	}
	for i := 0; i < stt.NumFields(); i++ {
		if stt.Field(i).Name() == parts[2] {
			return x.d.sortOf(stt.Field(i).Type())
		}
	}
	return ""
}

func (x *Exec) typeParamNamed(id *cxIdent) *types.TypeParam {
	if id == nil || x.unit.Decl == nil {
		return nil
	}
	obj, ok := x.unit.Pkg.TypesInfo.Defs[x.unit.Decl.Name].(*types.Func)
	if !ok {
		return nil
	}
	sig := obj.Type().(*types.Signature)
	for _, l := range []*types.TypeParamList{sig.TypeParams(), sig.RecvTypeParams()} {
		if l == nil {
			continue
		}
		for i := 0; i < l.Len(); i++ {
			if l.At(i).Obj().Name() == id.Name {
				return l.At(i)
			}
		}
	}
	return nil
}

func (x *Exec) modelParamType(mu *UnitSpec, i int) types.Type {
	txt := strings.TrimSpace(mu.ModelPT[i])
	ptr := strings.HasPrefix(txt, "*")
	txt = strings.TrimPrefix(txt, "*")
	if j := strings.Index(txt, "["); j >= 0 {
		txt = txt[:j]
	}
	var t types.Type
	if j := strings.Index(txt, "."); j >= 0 {
		for _, imp := range x.unit.Pkg.Imports {
			if imp.Name == txt[:j] && imp.Types != nil {
				if o := imp.Types.Scope().Lookup(txt[j+1:]); o != nil {
					t = o.Type()
				}
			}
		}
	} else if o := x.unit.Pkg.Types.Scope().Lookup(txt); o != nil {
		t = o.Type()
	} else if o := types.Universe.Lookup(txt); o != nil {
		t = o.Type()
	}
	if t == nil {
		return nil
	}
	if ptr {
		return types.NewPointer(t)
	}
	return t
}

// transparentModel: a model whose definition is a single field of its first
// parameter is that field, in callers too.
func transparentModel(mu *UnitSpec) string {
	if sel, ok := mu.ModelDef.(*cxSel); ok && len(mu.Params) == 1 {
		if id, ok := sel.X.(*cxIdent); ok && id.Name == mu.Params[0] {
			return sel.Sel
		}
	}
	return ""
}
