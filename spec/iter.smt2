; ---------------------------------------------------------------------------
; spec/iter.smt2 — Go range semantics used by the iterator contracts (DESIGN §3.3)
; decr/decw(id, from, end): rune and width of utf8.DecodeRuneInString applied to
; the bytes [from, end) of the string with identity id.  That `range` over a
; string decodes exactly like this function is the trusted reading of the Go spec.
; ---------------------------------------------------------------------------
(declare-fun decr (StrId Int Int) Int)
(declare-fun decw (StrId Int Int) Int)
; reflect.MapIter as an abstract cursor (assumed: it enumerates like the range statement)
(declare-sort MapPos 0)
(declare-fun mi_pos (Ref World) MapPos)
(define-fun RangeRune ((s Str) (k Int)) Int (decr (sbase s) (+ (soff s) k) (+ (soff s) (slen s))))
(define-fun RangeWidth ((s Str) (k Int)) Int (decw (sbase s) (+ (soff s) k) (+ (soff s) (slen s))))
; reflect (assumed): a MapIter is a cursor over the entries the range statement would visit
(declare-sort TP_K 0) (declare-const zero_TP_K TP_K)
(declare-sort Opaque_reflect_Value 0) (declare-const zero_Opaque_reflect_Value Opaque_reflect_Value)
(declare-fun rv_of (Iface) Opaque_reflect_Value)
(declare-fun rv_maprange (Opaque_reflect_Value) Ref)
(declare-fun rv_iface (Opaque_reflect_Value) Iface)
(declare-fun mi_has (Ref World) Bool) (declare-fun mi_adv (Ref World) World)
(declare-fun mi_key (Ref World) Opaque_reflect_Value) (declare-fun mi_val (Ref World) Opaque_reflect_Value)
(declare-fun mi_keyK (Ref World) TP_K) (declare-fun mi_valV (Ref World) TP_V)
; channel receive as a transition of the ghost world
(declare-fun recv_ok (Ref World) Bool) (declare-fun recv_world (Ref World) World) (declare-fun recv_val_TP_V (Ref World) TP_V)
