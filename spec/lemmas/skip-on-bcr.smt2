(declare-const w World) (declare-const st Stack) (declare-const t Sig) (declare-const v TP_V)
; Break/Continue/Return skip the rest of a Combine: s2 is never started
(declare-const s2 Fun)
(assert (not (= t sgN)))
(assert (= (M (Deliver t v (FSeq2 s2 st)) w) (unfoldM (Deliver t v (FSeq2 s2 st)) w)))
(assert (not (= (M (Deliver t v (FSeq2 s2 st)) w) (M (Deliver t v st) w))))
(check-sat)
