(declare-const w World) (declare-const st Stack) (declare-const t Sig) (declare-const v TP_V)
; S1 (C01): a loop with a yielding post is lowered to While(c, Combine(body, post)). A Continue raised in body is delivered
; to FSeq2(post, FLoop(c, nil, ..)): it skips post and re-enters the loop head WITHOUT running post, whereas the source
; loop For(c, post, body) runs post on Continue (lemma loop-next-iteration). Hence the lowering needs "no continue targets the loop".
(declare-const c Fun) (declare-const post Fun) (declare-const bp Fun)
(assert (not (= c nilF)))
(define-fun fl () Stack (FLoop c nilF bp st))
(assert (= (M (Deliver sgC v (FSeq2 post fl)) w) (unfoldM (Deliver sgC v (FSeq2 post fl)) w)))
(assert (= (M (Deliver sgC v fl) w) (unfoldM (Deliver sgC v fl) w)))
(assert (= (M (LoopHead false c nilF bp st) w) (unfoldM (LoopHead false c nilF bp st) w)))
(assert (not (= (M (Deliver sgC v (FSeq2 post fl)) w)
   (ite (cond_ret c w) (M (Start bp fl) (cond_w c w)) (M (Deliver sgN zero_TP_V st) (cond_w c w))))))
(check-sat)
