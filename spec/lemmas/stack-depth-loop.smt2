(declare-const w World) (declare-const st Stack) (declare-const t Sig) (declare-const v TP_V)
; C17 (machine level): a loop iteration re-enters the body under the same stack FLoop(c,p,b,st) -
; the continuation stack does not grow with the number of iterations
(declare-const c Fun) (declare-const p Fun) (declare-const b Fun)
(assert (= (M (Deliver sgN v (FLoop c p b st)) w) (unfoldM (Deliver sgN v (FLoop c p b st)) w)))
(assert (= (M (LoopHead false c p b st) w) (unfoldM (LoopHead false c p b st) w)))
(define-fun w1 () World (ite (not (= p nilF)) (post_w p w) w))
(define-fun go () Bool (or (= c nilF) (cond_ret c w1)))
(define-fun w2 () World (ite (= c nilF) w1 (cond_w c w1)))
(assert go)
(assert (not (= (M (Deliver sgN v (FLoop c p b st)) w) (M (Start b (FLoop c p b st)) w2))))
(check-sat)
