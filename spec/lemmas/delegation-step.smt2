(declare-const w World) (declare-const st Stack) (declare-const t Sig) (declare-const v TP_V)
; C05: the term emitted for YieldFrom, While(it.MoveNext, Delay(λ. v := it.Current(); Bind(v, Normal))):
; one outer advance performs exactly one delegate advance (cond) and one Current (thunk), suspends with the
; delegate's value, or - when the delegate is exhausted - continues with the rest of the stack; the resumption
; re-enters the loop head without any post.
(declare-const l Fun) (declare-const c Fun) (declare-const d Fun) (declare-const th Fun) (declare-const bd Fun) (declare-const nf Fun) (declare-const nrm Fun) (declare-const x TP_V)
(assert (= (shape l) (ShFor c nilF d))) (assert (= (shape d) (ShDelay th))) (assert (not (= c nilF)))
(define-fun w1 () World (cond_w c w)) (define-fun w2 () World (lazy_w th w1))
(assert (= (lazy_ret th w1) bd)) (assert (= (shape bd) (ShBind v nf)))
(assert (= (lazy_ret nf w2) nrm)) (assert (= (lazy_w nf w2) w2)) (assert (= (shape nrm) ShNormal))
(define-fun fl () Stack (FLoop c nilF d st))
(assert (= (M (Start l st) w) (unfoldM (Start l st) w)))
(assert (= (M (LoopHead true c nilF d st) w) (unfoldM (LoopHead true c nilF d st) w)))
(assert (= (M (Start d fl) w1) (unfoldM (Start d fl) w1)))
(assert (= (M (Start bd fl) w2) (unfoldM (Start bd fl) w2)))
(assert (= (M (Start nrm fl) w2) (unfoldM (Start nrm fl) w2)))
(assert (= (M (Deliver sgN zero_TP_V fl) w2) (unfoldM (Deliver sgN zero_TP_V fl) w2)))
(assert (and (isWrapL (wrapL nf)) (= (unwrapL (wrapL nf)) nf)))
(assert (=> (isWrapL (wrapL nf)) (and (= (lazyr_ret (wrapL nf) x w2) (lazy_ret (unwrapL (wrapL nf)) w2)) (= (lazyr_w (wrapL nf) x w2) (lazy_w (unwrapL (wrapL nf)) w2)))))
(assert (not (and
  (= (M (Start l st) w) (ite (cond_ret c w) (mkFO w2 (SomePend v (wrapL nf) fl) NoRes) (M (Deliver sgN zero_TP_V st) w1)))
  (= (M (Start (lazyr_ret (wrapL nf) x w2) fl) (lazyr_w (wrapL nf) x w2)) (M (LoopHead false c nilF d st) w2)))))
(check-sat)
