(declare-const w World) (declare-const st Stack) (declare-const t Sig) (declare-const v TP_V)
; Combine(Normal, s) behaves as s under every stack and world
(declare-const s0 Fun) (declare-const n Fun) (declare-const s Fun)
(assert (= (shape s0) (ShCombine n s))) (assert (= (shape n) ShNormal))
(assert (= (M (Start s0 st) w) (unfoldM (Start s0 st) w)))
(assert (= (M (Start n (FSeq2 s st)) w) (unfoldM (Start n (FSeq2 s st)) w)))
(assert (= (M (Deliver sgN zero_TP_V (FSeq2 s st)) w) (unfoldM (Deliver sgN zero_TP_V (FSeq2 s st)) w)))
(assert (not (= (M (Start s0 st) w) (M (Start s st) w))))
(check-sat)
