(declare-const w World) (declare-const st Stack) (declare-const t Sig) (declare-const v TP_V)
; Delay evaluates its thunk exactly once, when started, and runs what it returns
(declare-const d Fun) (declare-const f Fun)
(assert (= (shape d) (ShDelay f)))
(assert (= (M (Start d st) w) (unfoldM (Start d st) w)))
(assert (not (= (M (Start d st) w) (M (Start (lazy_ret f w) st) (lazy_w f w)))))
(check-sat)
