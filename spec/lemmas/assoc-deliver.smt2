(declare-const w World) (declare-const st Stack) (declare-const t Sig) (declare-const v TP_V)
; Combine is associative at the only place a stack is observed: delivering any signal to
; FSeq2(b, FSeq2(c, st)) and to FSeq2(Combine(b,c), st) reaches the same machine state
(declare-const b Fun) (declare-const c Fun) (declare-const bc Fun)
(assert (= (shape bc) (ShCombine b c)))
(assert (= (M (Deliver t v (FSeq2 b (FSeq2 c st))) w) (unfoldM (Deliver t v (FSeq2 b (FSeq2 c st))) w)))
(assert (= (M (Deliver t v (FSeq2 bc st)) w) (unfoldM (Deliver t v (FSeq2 bc st)) w)))
(assert (= (M (Start bc st) w) (unfoldM (Start bc st) w)))
(assert (= (M (Deliver t v (FSeq2 c st)) w) (unfoldM (Deliver t v (FSeq2 c st)) w)))
(assert (not (= (M (Deliver t v (FSeq2 b (FSeq2 c st))) w)
   (ite (= t sgN) (M (Deliver t v (FSeq2 bc st)) w) (M (Deliver t v st) w)))))
(check-sat)
