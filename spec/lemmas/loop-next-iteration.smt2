(declare-const w World) (declare-const st Stack) (declare-const t Sig) (declare-const v TP_V)
; on normal completion and on Continue the loop evaluates post exactly once, then cond once; Break ends the
; loop normally without post/cond; Return propagates with its value
(declare-const c Fun) (declare-const p Fun) (declare-const b Fun)
(assert (not (= c nilF))) (assert (not (= p nilF)))
(assert (= (M (Deliver t v (FLoop c p b st)) w) (unfoldM (Deliver t v (FLoop c p b st)) w)))
(assert (= (M (LoopHead false c p b st) w) (unfoldM (LoopHead false c p b st) w)))
(define-fun w1 () World (post_w p w))
(assert (not (= (M (Deliver t v (FLoop c p b st)) w)
   (ite (or (= t sgN) (= t sgC))
        (ite (cond_ret c w1) (M (Start b (FLoop c p b st)) (cond_w c w1)) (M (Deliver sgN zero_TP_V st) (cond_w c w1)))
   (ite (= t sgB) (M (Deliver sgN zero_TP_V st) w) (M (Deliver sgR v st) w))))))
(check-sat)
