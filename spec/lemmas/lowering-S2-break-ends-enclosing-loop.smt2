(declare-const w World) (declare-const st Stack) (declare-const t Sig) (declare-const v TP_V)
; S2 (C01): a switch is a breakable block: a break that targets it completes it normally, i.e. the rest of the loop body
; (the FSeq2 frame under it) is delivered Normal. Emitting seq.Break instead delivers B, which skips the rest of the body
; and ENDS the enclosing loop. The two differ, so `break` may become seq.Break only when its source target was a loop.
(declare-const c Fun) (declare-const p Fun) (declare-const b Fun) (declare-const rest Fun)
(define-fun fl () Stack (FLoop c p b st))
(assert (= (M (Deliver sgB v (FSeq2 rest fl)) w) (unfoldM (Deliver sgB v (FSeq2 rest fl)) w)))
(assert (= (M (Deliver sgB v fl) w) (unfoldM (Deliver sgB v fl) w)))
(assert (= (M (Deliver sgN v (FSeq2 rest fl)) w) (unfoldM (Deliver sgN v (FSeq2 rest fl)) w)))
(assert (not (and (= (M (Deliver sgB v (FSeq2 rest fl)) w) (M (Deliver sgN zero_TP_V st) w))
                 (= (M (Deliver sgN v (FSeq2 rest fl)) w) (M (Start rest fl) w)))))
(check-sat)
