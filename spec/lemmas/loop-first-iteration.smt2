(declare-const w World) (declare-const st Stack) (declare-const t Sig) (declare-const v TP_V)
; a loop does not evaluate post before the first iteration; cond is evaluated exactly once, in the entry world
(declare-const c Fun) (declare-const p Fun) (declare-const b Fun)
(assert (not (= c nilF)))
(assert (= (M (LoopHead true c p b st) w) (unfoldM (LoopHead true c p b st) w)))
(assert (not (= (M (LoopHead true c p b st) w)
   (ite (cond_ret c w) (M (Start b (FLoop c p b st)) (cond_w c w)) (M (Deliver sgN zero_TP_V st) (cond_w c w))))))
(check-sat)
