(declare-const w World) (declare-const st Stack) (declare-const t Sig) (declare-const v TP_V)
; the final continuation records the result and ends the run: nothing pending, world unchanged
(declare-const cell Ref)
(assert (= (M (Deliver t v (Top cell)) w) (unfoldM (Deliver t v (Top cell)) w)))
(assert (not (= (M (Deliver t v (Top cell)) w) (mkFO w NoPend (SomeRes cell v)))))
(check-sat)
