; ---------------------------------------------------------------------------
; spec/goast.smt2 — go/ast nodes as seen by the read-only units of the rewriter,
; and the Go specification's "Terminating statements" with labels cropped
; (DESIGN §3.5, Appendix F).  A node is an interface value (tag K_<Type>, ref);
; the K_ constants are emitted by the engine from go/ast itself.
; g_<field> are the rigid field functions; in units flagged `reveal ast-readonly`
; (which are checked to perform no AST write) every heap read of such a field is
; linked to them.
; ---------------------------------------------------------------------------
(declare-fun g_ast.BranchStmt.Tok (Ref) Int)
(declare-fun g_ast.BranchStmt.Label (Ref) Ref)
(declare-fun g_ast.IfStmt.Body (Ref) Ref)
(declare-fun g_ast.IfStmt.Else (Ref) Iface)
(declare-fun g_ast.ForStmt.Cond (Ref) Iface)
(declare-fun g_ast.ForStmt.Body (Ref) Ref)
(declare-fun g_ast.SwitchStmt.Body (Ref) Ref)
(declare-fun g_ast.TypeSwitchStmt.Body (Ref) Ref)
(declare-fun g_ast.SelectStmt.Body (Ref) Ref)
(declare-fun g_ast.LabeledStmt.Stmt (Ref) Iface)
(declare-fun g_ast.BlockStmt.List (Ref) Slice)
(declare-fun g_ast.CaseClause.List (Ref) Slice)
(declare-fun g_ast.CaseClause.Body (Ref) Slice)
(declare-fun g_ast.CommClause.Body (Ref) Slice)
(declare-fun g_ast.ExprStmt.X (Ref) Iface)
(declare-fun lget (Slice Int) Iface)
(declare-fun unparenE (Iface) Iface)
(declare-fun maphas_Ref (Ref Ref) Bool) (declare-fun mapget_Ref_Bool (Ref Ref) Bool)
; TBREAK TCONTINUE TGOTO TFALLTHROUGH TDEFINE TASSIGN are emitted by the engine from go/token
(define-fun blk ((r Ref)) Iface (mkIface K_BlockStmt r))
; WfAst: what go/parser guarantees (assumed, instantiated by the engine on every list/field read of a read-only unit)
(declare-fun StmtList (Slice) Bool)   ; every element is a proper statement
(declare-fun CaseList (Slice) Bool)   ; every element is a non-nil *ast.CaseClause with a statement-list body
(declare-fun CommList (Slice) Bool)   ; every element is a non-nil *ast.CommClause with a statement-list body
(define-fun ProperStmt ((s Iface)) Bool
  (and (not (= (itag s) 0)) (not (= (iref s) nilRef)) (not (= (itag s) K_CaseClause)) (not (= (itag s) K_CommClause))
       (=> (= (itag s) K_BlockStmt) (StmtList (g_ast.BlockStmt.List (iref s))))))
(define-fun ClauseStmt ((s Iface)) Bool
  (and (not (= (iref s) nilRef))
       (or (and (= (itag s) K_CaseClause) (StmtList (g_ast.CaseClause.Body (iref s))))
           (and (= (itag s) K_CommClause) (StmtList (g_ast.CommClause.Body (iref s)))))))
(define-fun isNilSlice ((s Slice)) Bool (= (s_base s) nilRef))
; calling the predeclared (possibly parenthesised) panic: a call expression recorded in the checker's map m
(define-fun isPanicCall ((m Ref) (s Iface)) Bool
  (let ((e (unparenE (g_ast.ExprStmt.X (iref s)))))
    (and (= (itag e) K_CallExpr) (maphas_Ref m (iref e)) (mapget_Ref_Bool m (iref e)))))
; ---- Go spec, "Terminating statements" (labels cropped); uninterpreted + ground unfolding
(declare-fun SpecTerm (Ref Iface) Bool)
(declare-fun STL (Ref Slice Int) Bool)      ; l[0..i] is non-empty and its final non-empty statement is terminating
(declare-fun SHB (Iface) Bool)              ; contains an unlabelled break referring to the enclosing statement
(declare-fun SHBp (Slice Int) Bool)         ; some l[j], j < i, has SHB
(declare-fun ClauseOK (Ref Iface) Bool)     ; case body ends terminating (or in fallthrough) and has no break for the switch
(declare-fun AllOK (Ref Slice Int) Bool) (declare-fun HasDef (Slice Int) Bool)
(declare-fun CommOK (Ref Iface) Bool) (declare-fun AllCommOK (Ref Slice Int) Bool)
(define-fun unfoldSpecTerm ((m Ref) (s Iface)) Bool
  (let ((k (itag s)) (r (iref s)))
  (ite (= k K_ReturnStmt) true
  (ite (= k K_BranchStmt) (or (= (g_ast.BranchStmt.Tok r) TGOTO) (= (g_ast.BranchStmt.Tok r) TFALLTHROUGH))
  (ite (= k K_ExprStmt) (isPanicCall m s)
  (ite (= k K_BlockStmt) (STL m (g_ast.BlockStmt.List r) (- (s_len (g_ast.BlockStmt.List r)) 1))
  (ite (= k K_IfStmt) (and (not (= (g_ast.IfStmt.Else r) nilIface)) (SpecTerm m (blk (g_ast.IfStmt.Body r))) (SpecTerm m (g_ast.IfStmt.Else r)))
  (ite (= k K_ForStmt) (and (= (g_ast.ForStmt.Cond r) nilIface) (not (SHB (blk (g_ast.ForStmt.Body r)))))
  (ite (= k K_SwitchStmt) (let ((l (g_ast.BlockStmt.List (g_ast.SwitchStmt.Body r)))) (and (AllOK m l (s_len l)) (HasDef l (s_len l))))
  (ite (= k K_TypeSwitchStmt) (let ((l (g_ast.BlockStmt.List (g_ast.TypeSwitchStmt.Body r)))) (and (AllOK m l (s_len l)) (HasDef l (s_len l))))
  (ite (= k K_SelectStmt) (let ((l (g_ast.BlockStmt.List (g_ast.SelectStmt.Body r)))) (AllCommOK m l (s_len l)))
  (ite (= k K_LabeledStmt) (SpecTerm m (g_ast.LabeledStmt.Stmt r))
   false))))))))))))
(define-fun unfoldSTL ((m Ref) (l Slice) (i Int)) Bool
  (and (>= i 0) (ite (= (itag (lget l i)) K_EmptyStmt) (STL m l (- i 1)) (SpecTerm m (lget l i)))))
(define-fun unfoldSHB ((s Iface)) Bool
  (let ((k (itag s)) (r (iref s)))
  (ite (= k K_BranchStmt) (and (= (g_ast.BranchStmt.Tok r) TBREAK) (= (g_ast.BranchStmt.Label r) nilRef))
  (ite (= k K_BlockStmt) (SHBp (g_ast.BlockStmt.List r) (s_len (g_ast.BlockStmt.List r)))
  (ite (= k K_IfStmt) (or (SHB (blk (g_ast.IfStmt.Body r))) (and (not (= (g_ast.IfStmt.Else r) nilIface)) (SHB (g_ast.IfStmt.Else r))))
  (ite (= k K_CaseClause) (SHBp (g_ast.CaseClause.Body r) (s_len (g_ast.CaseClause.Body r)))
  (ite (= k K_CommClause) (SHBp (g_ast.CommClause.Body r) (s_len (g_ast.CommClause.Body r)))
  (ite (= k K_LabeledStmt) (SHB (g_ast.LabeledStmt.Stmt r))
   false))))))))
(define-fun unfoldSHBp ((l Slice) (i Int)) Bool (and (> i 0) (or (SHBp l (- i 1)) (SHB (lget l (- i 1))))))
(define-fun unfoldClauseOK ((m Ref) (c Iface)) Bool
  (let ((b (g_ast.CaseClause.Body (iref c)))) (and (STL m b (- (s_len b) 1)) (not (SHBp b (s_len b))))))
(define-fun unfoldAllOK ((m Ref) (l Slice) (i Int)) Bool (or (<= i 0) (and (AllOK m l (- i 1)) (ClauseOK m (lget l (- i 1))))))
(define-fun unfoldHasDef ((l Slice) (i Int)) Bool (and (> i 0) (or (HasDef l (- i 1)) (isNilSlice (g_ast.CaseClause.List (iref (lget l (- i 1))))))))
(define-fun unfoldCommOK ((m Ref) (c Iface)) Bool
  (let ((b (g_ast.CommClause.Body (iref c)))) (and (STL m b (- (s_len b) 1)) (not (SHBp b (s_len b))))))
(define-fun unfoldAllCommOK ((m Ref) (l Slice) (i Int)) Bool (or (<= i 0) (and (AllCommOK m l (- i 1)) (CommOK m (lget l (- i 1))))))
; "terminating by the Go specification" for the statements pass 2 hands to the checker, with the
; set of panic call sites existentially fixed by the matcher (abstract here): used only abstractly
(declare-fun SpecTermAny (Iface) Bool)
; strings built by gensym: decimal rendering and concatenation, abstract; injectivity is the (assumed) property used by C15
(declare-fun itoaS (Int) Str)
(declare-fun strcat (Str Str) Str)
; go/types information, abstract: the callee object of a call and the type of an expression
(declare-fun calleeOf (Ref) Iface)
(declare-fun typeOfExpr (Iface) Iface)
; contains a call of Yield/YieldFrom outside nested function literals (abstract; decided by rewriter.containsYield)
(declare-fun HasYield (Iface) Bool)
(assert (not (HasYield nilIface)))
; astutil cursor (abstract) and the source-level target of a branch statement (ghost, C01 side condition S2)
(declare-fun cursorNode (Ref) Iface)
(declare-fun cursorParent (Ref) Iface)
(declare-fun SrcBreakTargetsLoop (Ref) Bool)
(declare-fun LoopBodyHasContinue (Ref) Bool)
; the post statement of the loop mentions a name that the loop body declares at its top level (ghost, C01 side condition S3)
(declare-fun PostUsesBodyScope (Ref) Bool)
; go/types facts used by the optimiser's side conditions (abstract)
(declare-fun objectOf (Ref) Iface)
(declare-fun TypesIdentical (Iface Iface) Bool)
(declare-fun TypeResolved (Iface) Bool)
; D39: evaluating the expression has no effect and runs no user code (abstract; generated by the ghost rules of rewriter.valuesOnly)
(declare-fun EffFree (Iface) Bool)
(declare-fun IsTypeExpr (Iface) Bool) ; go/types: the expression denotes a type (a type argument of an instantiation)
(declare-fun funcName (Ref) Str) (declare-fun funcPkg (Ref) Ref) (declare-fun pkgPath (Ref) Str) ; go/types: the type mentions no invalid (unresolved) type
; the callee expression is a method value x.m whose receiver x is evaluated when the expression is (ghost, C07/C13 side condition)
(declare-fun BindsReceiverEarly (Iface) Bool)
(declare-fun Addressable (Iface) Bool) ; go/types: the expression denotes an addressable value (mode variable)
(declare-fun MayFault (Iface) Bool) ; evaluating the expression may panic (it dereferences a pointer or indexes)
(declare-fun cursorReplace (Ref Iface World) World)
(declare-fun cursorInsert (Ref Iface World) World)
; projections of the two (free) edit constructors, stated by the assumed contracts of Cursor.Replace / Cursor.InsertBefore
(declare-fun lastReplaced (World) Iface) (declare-fun replBase (World) World)
(declare-fun lastInserted (World) Iface) (declare-fun insBase (World) World)
; go/types, abstract: underlying type, the flag word of a basic type, flag test
(declare-fun typeUnderlying (Iface) Iface)
(declare-fun basicInfo (Ref) Int)
(declare-fun bitand (Int Int) Int)
; go/types: the returned expression is absent or the untyped nil (decided by the trusted closure isRetNil)
(declare-fun RetIsNil (Ref) Bool)
; the cursor stands on the type expression of an embedded struct field (ghost, C06 side condition D28)
(declare-fun EmbeddedFieldType (Ref) Bool)
; the callee expression of an eta-shaped literal refers to one of the literal's parameters (decided by the trusted rewriter.mentionsParam)
(declare-fun CalleeMentionsParam (Ref) Bool)
; supported subset (C12): abstract; the rules that generate it are the `ghost` clauses of the pass-2 contracts
(declare-fun Sup (Iface) Bool)
(declare-fun SupList (Slice) Bool)
(declare-fun SupCases (Slice Int) Bool)
; no live yield (C12): abstract, generated by the `ghost` rules of the pass-2 contracts from HasYield on simple parts
(declare-fun NY (Iface) Bool)
(declare-fun NYList (Slice) Bool)
(declare-fun NYCases (Slice Int) Bool)
; the import declarations of a file after go-imports' Clean (abstract; assumed contract of the dependency)
(declare-fun importsCleaned (Ref World) World)
; the optimiser's two matcher-driven reductions and the printer, abstract (assumed contracts of trusted / external code)
(declare-fun delayElided (World) World)
(declare-fun etaReduced (World) World)
(declare-fun printed (Ref World) World)
(declare-fun passesApplied (Ref World) World) ; phase 1 over one file (passes 0-3, YieldFrom, consumer loops, type replacement), abstract
(declare-fun fileUsesSeq (Ref) Bool)
(declare-fun funcType (Ref) Iface)
(declare-fun sigTParams (Ref) Ref)
(declare-fun tplLen (Ref) Int)
(declare-fun sigParams (Ref) Ref) (declare-fun sigResults (Ref) Ref) (declare-fun sigVariadic (Ref) Bool) (declare-fun sigRecv (Ref) Ref)
(declare-fun IsIterType (Iface) Bool)
(declare-fun yieldFuncRewritten (Ref Ref World) World)
; ghost mark: the statement passed the residual-yield check when it was pushed into a block (set only by block.push)
(declare-fun CleanStmt (Iface) Bool)
