; ---------------------------------------------------------------------------
; spec/machine.smt2 — reference abstract machine for the seq combinators
; (DESIGN §3.1).  Specification only; hand-written, small enough to audit.
; The element type parameter V of package seq is the uninterpreted sort TP_V.
; ---------------------------------------------------------------------------
(declare-sort TP_V 0) (declare-const zero_TP_V TP_V)
(declare-datatypes ((Sig 0)) (((sgN) (sgB) (sgC) (sgR))))
(declare-datatypes ((Stack 0)) (((Top (top_cell Ref)) (FSeq2 (fs_s2 Fun) (fs_rest Stack)) (FLoop (fl_c Fun) (fl_p Fun) (fl_b Fun) (fl_rest Stack)))))
(declare-datatypes ((Shape 0)) (((ShNormal) (ShBreak) (ShContinue) (ShReturn) (ShRetV (sh_rv TP_V)) (ShBind (sh_bv TP_V) (sh_bf Fun)) (ShBindR (sh_brv TP_V) (sh_brf Fun)) (ShDelay (sh_df Fun)) (ShCombine (sh_c1 Fun) (sh_c2 Fun)) (ShFor (sh_lc Fun) (sh_lp Fun) (sh_lb Fun)) (ShOpaque))))
(declare-datatypes ((Pend 0)) (((NoPend) (SomePend (pd_v TP_V) (pd_r Fun) (pd_s Stack)))))
(declare-datatypes ((Res 0)) (((NoRes) (SomeRes (rs_c Ref) (rs_v TP_V)))))
(declare-datatypes ((FO 0)) (((mkFO (fo_w World) (fo_pend Pend) (fo_res Res)))))
(declare-datatypes ((MState 0)) (((Start (st_s Fun) (st_k Stack)) (Deliver (dl_t Sig) (dl_v TP_V) (dl_k Stack)) (LoopHead (lh_skip Bool) (lh_c Fun) (lh_p Fun) (lh_b Fun) (lh_k Stack)))))
; ghost attributes of function values
(declare-fun shape (Fun) Shape)     ; of a Seq
(declare-fun stackOf (Fun) Stack)   ; of a cont
(declare-fun nres (Fun) Fun)        ; of a next: the lazyRecv to resume with
(declare-fun nst (Fun) Stack)       ; of a next: the stack to resume under
(declare-fun Co (Fun) Ref)          ; the co a cont / next belongs to
(declare-fun M (MState World) FO)
; user-supplied closures as uninterpreted state transformers over the ghost world
(declare-fun lazy_ret (Fun World) Fun) (declare-fun lazy_w (Fun World) World)
(declare-fun lazyr_ret (Fun TP_V World) Fun) (declare-fun lazyr_w (Fun TP_V World) World)
(declare-fun cond_ret (Fun World) Bool) (declare-fun cond_w (Fun World) World)
(declare-fun post_w (Fun World) World)
; wrapL(f): the lazyRecv mkNext builds around a lazy; constL(s): the constant thunk Start builds
(declare-fun wrapL (Fun) Fun) (declare-fun constL (Fun) Fun)
; defining equations of wrapL / constL, asserted by the engine as ground instances wherever these
; functions are applied (quantified axioms make failing obligations diverge):
;   lazyr_ret(wrapL f, v, w) = lazy_ret(f, w)    lazyr_w(wrapL f, v, w) = lazy_w(f, w)
;   lazy_ret(constL s, w) = s                    lazy_w(constL s, w) = w
(declare-fun isWrapL (Fun) Bool) (declare-fun unwrapL (Fun) Fun)
(declare-fun isConstL (Fun) Bool) (declare-fun unconstL (Fun) Fun)
(define-fun sigOf ((t Int)) Sig (ite (= t 0) sgN (ite (= t 1) sgB (ite (= t 2) sgC sgR))))
(define-fun ShOfSig ((t Int)) Shape (ite (= t 0) ShNormal (ite (= t 1) ShBreak (ite (= t 2) ShContinue ShReturn))))
; one step of the machine (ground unfolding instances of this are asserted by the engine)
(define-fun unfoldM ((q MState) (w World)) FO
 (ite ((_ is Start) q)
   (let ((s (st_s q)) (st (st_k q)))
   (let ((sh (shape s)))
    (ite (= sh ShNormal) (M (Deliver sgN zero_TP_V st) w)
    (ite (= sh ShBreak) (M (Deliver sgB zero_TP_V st) w)
    (ite (= sh ShContinue) (M (Deliver sgC zero_TP_V st) w)
    (ite (= sh ShReturn) (M (Deliver sgR zero_TP_V st) w)
    (ite ((_ is ShRetV) sh) (M (Deliver sgR (sh_rv sh) st) w)
    (ite ((_ is ShBind) sh) (mkFO w (SomePend (sh_bv sh) (wrapL (sh_bf sh)) st) NoRes)
    (ite ((_ is ShBindR) sh) (mkFO w (SomePend (sh_brv sh) (sh_brf sh) st) NoRes)
    (ite ((_ is ShDelay) sh) (M (Start (lazy_ret (sh_df sh) w) st) (lazy_w (sh_df sh) w))
    (ite ((_ is ShCombine) sh) (M (Start (sh_c1 sh) (FSeq2 (sh_c2 sh) st)) w)
    (ite ((_ is ShFor) sh) (M (LoopHead true (sh_lc sh) (sh_lp sh) (sh_lb sh) st) w)
      (M q w)))))))))))))
 (ite ((_ is Deliver) q)
   (let ((t (dl_t q)) (v (dl_v q)) (st (dl_k q)))
    (ite ((_ is Top) st) (mkFO w NoPend (SomeRes (top_cell st) v))
    (ite ((_ is FSeq2) st) (ite (= t sgN) (M (Start (fs_s2 st) (fs_rest st)) w) (M (Deliver t v (fs_rest st)) w))
      (ite (or (= t sgN) (= t sgC)) (M (LoopHead false (fl_c st) (fl_p st) (fl_b st) (fl_rest st)) w)
      (ite (= t sgB) (M (Deliver sgN zero_TP_V (fl_rest st)) w) (M (Deliver sgR v (fl_rest st)) w))))))
   (let ((sk (lh_skip q)) (c (lh_c q)) (p (lh_p q)) (b (lh_b q)) (st (lh_k q)))
   (let ((w1 (ite (and (not (= p nilF)) (not sk)) (post_w p w) w)))
   (let ((go (or (= c nilF) (cond_ret c w1))) (w2 (ite (= c nilF) w1 (cond_w c w1))))
     (ite go (M (Start b (FLoop c p b st)) w2) (M (Deliver sgN zero_TP_V st) w2))))))))
; code-level view of a final outcome
(declare-datatypes ((CStep 0)) (((StepNil) (StepSome (cs_v TP_V) (cs_nres Fun) (cs_nst Stack)))))
(define-fun stepOf ((fo FO)) CStep (ite ((_ is NoPend) (fo_pend fo)) StepNil (StepSome (pd_v (fo_pend fo)) (pd_r (fo_pend fo)) (pd_s (fo_pend fo)))))
(define-fun resW ((fo FO) (h (Array Ref TP_V))) (Array Ref TP_V) (ite ((_ is SomeRes) (fo_res fo)) (store h (rs_c (fo_res fo)) (rs_v (fo_res fo))) h))
; outcome of resuming a next value n with received value x in world w
(define-fun FoNext ((n Fun) (x TP_V) (w World)) FO (M (Start (lazyr_ret (nres n) x w) (nst n)) (lazyr_w (nres n) x w)))
